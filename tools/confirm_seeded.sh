#!/bin/bash
# Confirm a candidate seeded change in a scratch worktree:
#   tools/confirm_seeded.sh <worktree> <dir with patch.diff + demo.rs>
# Prints RESULT lines: suite with change, demo with change (must fail), demo without (must pass).
set -u
WT="$1"; D="$2"
export CARGO_NET_OFFLINE=true CARGO_TARGET_DIR="$WT/target" RUST_BACKTRACE=0
cd "$WT" || exit 2
git reset -q --hard; git checkout -q -- . ; rm -f tests/demo.rs examples/demo.rs
git checkout -q --detach "$(git -C /repo rev-parse HEAD)" || exit 2
if ! git apply --3way "$D/patch.diff" 2>/tmp/apply.$$.log; then echo "RESULT apply=FAILED"; cat /tmp/apply.$$.log; exit 1; fi
git reset -q
echo "RESULT apply=ok"
if cargo test --workspace --no-fail-fast --offline >/tmp/suite.$$.log 2>&1; then echo "RESULT suite_with_change=pass"; else echo "RESULT suite_with_change=FAIL"; grep -E "^test .*FAILED|error" /tmp/suite.$$.log | head; fi
cp "$D/demo.rs" tests/demo.rs
if cargo test --offline --test demo >/tmp/demo1.$$.log 2>&1; then echo "RESULT demo_with_change=pass(BAD)"; else echo "RESULT demo_with_change=fail(expected)"; fi
git diff -- src > /tmp/applied.$$.diff
git checkout -q -- src
if cargo test --offline --test demo >/tmp/demo2.$$.log 2>&1; then echo "RESULT demo_without_change=pass(expected)"; else echo "RESULT demo_without_change=FAIL(BAD)"; tail -5 /tmp/demo2.$$.log; fi
rm -f tests/demo.rs
cp /tmp/applied.$$.diff "$D/patch.rebased.diff"
rm -f /tmp/*.$$.log /tmp/applied.$$.diff
