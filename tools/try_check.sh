#!/bin/bash
# Apply a seeded change to /repo, run one property's check, undo the change.
#   tools/try_check.sh <patch.diff> <property> [extra check args...]
set -u
PATCH="$1"; PROP="$2"; shift 2
cd /repo || exit 2
if [ -n "$(git status --porcelain --untracked-files=no)" ]; then echo "TRY-ERROR /repo has local modifications"; exit 2; fi
if ! git apply "$PATCH"; then echo "TRY-ERROR patch does not apply"; exit 2; fi
VERIF_ROOT_REPLAYS=1 /verif/check "$PROP" "$@" > /tmp/try.$$.out 2>&1; rc=$?
git checkout -q -- .
git clean -fdq -- src tests examples   # (patches that add files)
grep -E "^(violation class|VIOLATION|KNOWN-FINDING|HARNESS-ERROR|OK |runs=)" /tmp/try.$$.out | cut -c1-400
echo "TRY-RESULT patch=$PATCH property=$PROP exit=$rc"
rm -f /tmp/try.$$.out
exit $rc
