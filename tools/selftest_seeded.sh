#!/bin/bash
# Sensitivity self-test: every seeded change under /verif/seeded/ must make the quick
# check of the property it breaks exit 1 (VIOLATION), and the unchanged tree must pass.
# Works on a scratch worktree of /repo (never on /repo itself) and its own target dir.
#   tools/selftest_seeded.sh [id-glob]      e.g. tools/selftest_seeded.sh 'r2c18*'
set -u
ROOT="$(cd "$(dirname "${BASH_SOURCE[0]}")/.." && pwd)"
GLOB="${1:-*}"
WT=/dev/shm/geodesy-verif-selftest-wt
TG=/dev/shm/geodesy-verif-selftest-target
git -C /repo worktree remove --force "$WT" 2>/dev/null; rm -rf "$WT"
git -C /repo worktree add -q --detach "$WT" HEAD || exit 2
trap 'git -C /repo worktree remove --force "$WT" 2>/dev/null; rm -rf "$TG"; ln -sfn /repo "$ROOT/sim/repo-link"' EXIT
fail=0
for d in "$ROOT"/seeded/$GLOB/; do
  id=$(basename "$d")
  prop=$(python3 -c "import json,sys; print(json.load(open('$d/meta.json'))['breaks_property'])")
  git -C "$WT" checkout -q -- . 
  if ! git -C "$WT" apply "$d/patch.diff"; then echo "SELFTEST $id property=$prop patch does not apply to HEAD"; fail=1; continue; fi
  mkdir -p "$TG/out"; cp "$ROOT/known_findings.json" "$TG/out/"
  out=$(VERIF_REPO="$WT" VERIF_TARGET="$TG" VERIF_OUT="$TG/out" "$ROOT/check" "$prop" --tier quick 2>&1); rc=$?
  classes=$(echo "$out" | grep -c '^violation class')
  if [ $rc -eq 1 ]; then echo "SELFTEST $id property=$prop caught (exit 1, $classes classes)"; else echo "SELFTEST $id property=$prop NOT caught (exit $rc)"; fail=1; fi
done
git -C "$WT" checkout -q -- .
exit $fail
