#!/bin/bash
# Sensitivity self-test: every seeded change under /verif/seeded/ must make the quick
# check of the property it breaks exit 1 (VIOLATION). Works on a scratch worktree of
# /repo (never on /repo itself) and on a private copy of the harness sources, so it can
# run next to ordinary ./check invocations.
#   tools/selftest_seeded.sh [id-glob]      e.g. tools/selftest_seeded.sh 'r2c18*'
set -u
ROOT="$(cd "$(dirname "${BASH_SOURCE[0]}")/.." && pwd)"
GLOB="${1:-*}"
WT=/dev/shm/geodesy-verif-st-wt
TG=/dev/shm/geodesy-verif-st
git -C /repo worktree remove --force "$WT" 2>/dev/null; rm -rf "$WT" "$TG"
git -C /repo worktree add -q --detach "$WT" HEAD || exit 2
trap 'git -C /repo worktree remove --force "$WT" 2>/dev/null; rm -rf "$TG"' EXIT
mkdir -p "$TG/verif/sim"
cp "$ROOT/check" "$ROOT/known_findings.json" "$TG/verif/"
cp -r "$ROOT/sim/src" "$ROOT/sim/Cargo.toml" "$ROOT/sim/Cargo.lock" "$ROOT/sim/.cargo" "$TG/verif/sim/"
fail=0
for d in "$ROOT"/seeded/$GLOB/; do
  id=$(basename "$d")
  prop=$(python3 -c "import json,sys; print(json.load(open('$d/meta.json'))['breaks_property'])")
  git -C "$WT" checkout -q -- .
  if ! git -C "$WT" apply "$d/patch.diff"; then echo "SELFTEST $id property=$prop patch does not apply to HEAD"; fail=1; continue; fi
  out=$(VERIF_REPO="$WT" "$TG/verif/check" "$prop" --tier quick 2>&1); rc=$?
  classes=$(echo "$out" | grep -c '^violation class')
  if [ $rc -eq 1 ]; then echo "SELFTEST $id property=$prop caught (exit 1, $classes classes)"; else echo "SELFTEST $id property=$prop NOT caught (exit $rc)"; echo "$out" | tail -5; fail=1; fi
done
git -C "$WT" checkout -q -- .
exit $fail
