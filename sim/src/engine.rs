//! Engine-independent machinery: the Engine trait, the per-run Recorder, the worker
//! loop (generate Plan -> execute -> on violation shrink), greedy shrinking, replay.

use crate::rng::run_seed;
use crate::util::{normalize_panic, Hash128};
use serde::{de::DeserializeOwned, Deserialize, Serialize};
use serde_json::{json, Value};
use std::collections::{BTreeMap, BTreeSet};
use std::io::Write;

#[derive(Clone, Copy, Debug, PartialEq, Eq)]
pub enum Tier {
    Quick,
    Thorough,
}

impl Tier {
    pub fn parse(s: &str) -> Option<Tier> {
        match s {
            "quick" => Some(Tier::Quick),
            "thorough" => Some(Tier::Thorough),
            _ => None,
        }
    }
    pub fn name(self) -> &'static str {
        match self {
            Tier::Quick => "quick",
            Tier::Thorough => "thorough",
        }
    }
}

#[derive(Serialize, Deserialize, Clone, Debug, PartialEq)]
pub struct Violation {
    pub property: String,
    /// which invariant of the engine's oracle failed (e.g. "I-val")
    pub invariant: String,
    /// normalised message: digits folded, paths relative; part of the class
    pub message: String,
    /// free text with the concrete values; not part of the class
    pub detail: String,
}

impl Violation {
    pub fn class(&self) -> String {
        format!("{}|{}|{}", self.property, self.invariant, self.message)
    }
}

/// Everything one simulated run reports. The log feeds a hash only (and is kept as
/// text when `verbose`); it must be a pure function of (Plan, code under test).
pub struct Recorder {
    pub property: &'static str,
    pub verbose: bool,
    pub lines: Vec<String>,
    pub hash: Hash128,
    pub events: u64,
    pub faults: BTreeMap<&'static str, u64>,
    pub probes: BTreeMap<&'static str, u64>,
    pub sigs: Vec<u64>,
    pub violation: Option<Violation>,
    /// panics on both sides of an oracle etc.: counted, not reported
    pub tolerated: BTreeMap<String, u64>,
    pub fault_free: bool,
    /// the run left process-wide state it cannot undo (e.g. coroutines abandoned while
    /// holding the grid cache lock): this process must not execute further runs
    pub tainted: bool,
}

impl Recorder {
    pub fn new(property: &'static str, verbose: bool) -> Recorder {
        Recorder {
            property,
            verbose,
            lines: Vec::new(),
            hash: Hash128::new(),
            events: 0,
            faults: BTreeMap::new(),
            probes: BTreeMap::new(),
            sigs: Vec::new(),
            violation: None,
            tolerated: BTreeMap::new(),
            fault_free: true,
            tainted: false,
        }
    }
    pub fn log(&mut self, line: &str) {
        self.hash.str(line);
        if self.verbose {
            self.lines.push(line.to_string());
        }
    }
    pub fn logf(&mut self, f: impl FnOnce() -> String) {
        let s = f();
        self.log(&s);
    }
    pub fn event(&mut self) {
        self.events += 1;
    }
    pub fn fault(&mut self, kind: &'static str) {
        *self.faults.entry(kind).or_insert(0) += 1;
        self.fault_free = false;
    }
    pub fn probe(&mut self, name: &'static str) {
        *self.probes.entry(name).or_insert(0) += 1;
    }
    pub fn sig(&mut self, s: u64) {
        self.sigs.push(s);
    }
    pub fn tolerate(&mut self, what: &str) {
        *self.tolerated.entry(what.to_string()).or_insert(0) += 1;
    }
    pub fn failed(&self) -> bool {
        self.violation.is_some()
    }
    /// Record the first violation of the run (later ones are ignored)
    pub fn violate(&mut self, invariant: &str, message: &str, detail: String) {
        if self.violation.is_none() {
            let v = Violation {
                property: self.property.to_string(),
                invariant: invariant.to_string(),
                message: normalize_panic(message),
                detail,
            };
            self.log(&format!("VIOLATION {}", v.class()));
            self.violation = Some(v);
        }
    }
}

/// Static description of an engine, for the evidence file
pub struct EngineInfo {
    pub rule: &'static str,
    pub real_components: &'static [&'static str],
    pub simulated_components: &'static [&'static str],
    pub assumptions: &'static [&'static str],
    /// probes that must be non-zero in the thorough tier
    pub required_probes: &'static [&'static str],
    pub exhaustive: bool,
}

pub trait Engine {
    type Plan: Serialize + DeserializeOwned + Clone;
    const NAME: &'static str;
    const PROPERTY: &'static str;

    fn new(tier: Tier) -> Self;
    fn info() -> EngineInfo;
    /// number of runs of the batch
    fn runs(&self, tier: Tier) -> u64;
    /// Plan of run `index`; `seed` is already derived from (VERIF_SEED, engine, index)
    fn generate(&self, index: u64, seed: u64, tier: Tier) -> Self::Plan;
    fn execute(&mut self, plan: &Self::Plan, rec: &mut Recorder);
    /// one-step simplifications, most aggressive first
    fn shrink_candidates(&self, plan: &Self::Plan) -> Vec<Self::Plan>;
    /// size measure reported in evidence (number of events/steps in the plan)
    fn plan_size(&self, plan: &Self::Plan) -> usize;
    /// compact human-readable rendering for evidence samples
    fn sample(&self, plan: &Self::Plan) -> Value {
        serde_json::to_value(plan).unwrap_or(Value::Null)
    }
}

#[derive(Serialize, Deserialize, Clone, Debug)]
pub struct ReplayFile {
    pub engine: String,
    pub property: String,
    pub class: String,
    pub detail: String,
    pub master_seed: u64,
    pub run_index: u64,
    pub run_seed: u64,
    pub original_size: usize,
    pub minimised_size: usize,
    pub shrink_executions: u64,
    pub plan: Value,
    /// run indices (of the same batch: master seed, engine, tier) that must be executed
    /// in the same process before `plan` for the violation to show: non-empty when the
    /// outcome of a run depends on what the process did earlier (state leaking between
    /// contexts / runs inside the code under test)
    #[serde(default)]
    pub history: Vec<u64>,
    #[serde(default)]
    pub tier: String,
}

#[derive(Serialize, Deserialize, Clone, Debug, Default)]
pub struct WorkerReport {
    pub engine: String,
    pub runs: u64,
    pub events: u64,
    pub fault_free_runs: u64,
    pub faults: BTreeMap<String, u64>,
    pub probes: BTreeMap<String, u64>,
    pub tolerated: BTreeMap<String, u64>,
    pub sigs: Vec<u64>,
    /// order independent fold of all run hashes (sum of low words, wrapping)
    pub hash_fold: u64,
    /// (run index, hash) for the first runs, to compare executions across processes
    pub run_hashes: Vec<(u64, String)>,
    pub samples: Vec<Value>,
    pub violations: Vec<ReplayFile>,
    pub violating_runs: u64,
    pub busy_s: f64,
    /// set when the worker stopped early because a run tainted the process:
    /// the next run index of this worker's slot
    #[serde(default)]
    pub resume_at: Option<u64>,
}

pub const KEEP_RUN_HASHES: u64 = 4096;

// ----- liveness: a run that makes no progress is a finding, not a stuck batch ---------

pub static PROGRESS: std::sync::atomic::AtomicU64 = std::sync::atomic::AtomicU64::new(0);
pub const EXIT_HANG: i32 = 98;
pub const EXIT_TAINTED: i32 = 97;
pub const HANG_SECS: u64 = 60;
pub const CLASS_HANG: &str = "I-live|a simulated run made no progress for 60 s of wall time (unbounded loop in the code under test)";
pub const CLASS_ABORT: &str = "I-abort|the process executing the simulated run died abnormally (abort, stack overflow, out of memory)";

/// A hang is infinite, so this is not timing sensitive: ordinary runs take
/// milliseconds, the largest ones well under a second.
pub fn start_watchdog() {
    use std::sync::atomic::Ordering::Relaxed;
    std::thread::spawn(|| {
        let mut last = PROGRESS.load(Relaxed);
        let mut since = std::time::Instant::now();
        loop {
            std::thread::sleep(std::time::Duration::from_millis(500));
            let now = PROGRESS.load(Relaxed);
            if now != last {
                last = now;
                since = std::time::Instant::now();
            } else if since.elapsed().as_secs() >= HANG_SECS {
                eprintln!("watchdog: no progress for {HANG_SECS} s, giving up on this process");
                std::process::exit(EXIT_HANG);
            }
        }
    });
}

pub fn current_index_file(pid: u32) -> std::path::PathBuf {
    crate::util::scratch_base().join(format!("cur-{}", pid))
}

pub fn sig_sample_mask(total_runs: u64) -> u64 {
    if total_runs > 4_000_000 {
        15
    } else {
        0
    }
}

fn execute_guarded<E: Engine>(engine: &mut E, plan: &E::Plan, verbose: bool) -> Recorder {
    PROGRESS.fetch_add(1, std::sync::atomic::Ordering::Relaxed);
    let mut rec = Recorder::new(E::PROPERTY, verbose);
    let result = crate::util::catch(|| engine.execute(plan, &mut rec));
    if let Err(panic) = result {
        // A panic escaping an engine is a harness bug: make it loud and distinct
        rec.violate("HARNESS-PANIC", &panic, panic.clone());
    }
    rec
}

/// Greedy shrinking: adopt any candidate that still fails with the same class
pub fn shrink<E: Engine>(
    engine: &mut E,
    plan: E::Plan,
    class: &str,
    max_executions: u64,
) -> (E::Plan, u64) {
    let mut best = plan;
    let mut executions = 0u64;
    'outer: loop {
        let candidates = engine.shrink_candidates(&best);
        for cand in candidates {
            if executions >= max_executions {
                break 'outer;
            }
            executions += 1;
            let rec = execute_guarded(engine, &cand, false);
            if rec.violation.as_ref().map(|v| v.class()) == Some(class.to_string()) {
                best = cand;
                continue 'outer;
            }
        }
        break;
    }
    (best, executions)
}

/// Worker: execute run indices `first, first+stride, ...` below `limit`
pub fn worker<E: Engine>(
    tier: Tier,
    master_seed: u64,
    first: u64,
    stride: u64,
    limit: Option<u64>,
    out: &mut dyn Write,
) {
    let started = std::time::Instant::now();
    let mut engine = E::new(tier);
    let total = engine.runs(tier);
    // where we are, for whoever has to explain our death
    let _ = std::fs::create_dir_all(crate::util::scratch_base());
    let cur_path = current_index_file(std::process::id());
    let cur_file = std::fs::File::create(&cur_path).ok();
    start_watchdog();
    let limit = limit.map_or(total, |l| l.min(total));
    let mut report = WorkerReport {
        engine: E::NAME.to_string(),
        ..Default::default()
    };
    let mut sigs: BTreeSet<u64> = BTreeSet::new();
    let mut classes_seen: BTreeSet<String> = BTreeSet::new();
    // run indices executed in this process so far, in order
    let mut history: Vec<u64> = Vec::new();
    let mut index = first;
    while index < limit {
        let seed = run_seed(master_seed, E::NAME, index);
        if let Some(f) = &cur_file {
            use std::os::unix::fs::FileExt;
            let _ = f.write_at(&index.to_le_bytes(), 0);
        }
        let plan = engine.generate(index, seed, tier);
        let rec = execute_guarded(&mut engine, &plan, false);
        report.runs += 1;
        report.events += rec.events;
        if rec.fault_free {
            report.fault_free_runs += 1;
        }
        for (k, v) in &rec.faults {
            *report.faults.entry(k.to_string()).or_insert(0) += v;
        }
        for (k, v) in &rec.probes {
            *report.probes.entry(k.to_string()).or_insert(0) += v;
        }
        for (k, v) in &rec.tolerated {
            *report.tolerated.entry(k.clone()).or_insert(0) += v;
        }
        // very large batches: keep a 1/16 hash sample only (reported as a lower bound)
        let mask = sig_sample_mask(total);
        sigs.extend(rec.sigs.iter().copied().filter(|s| s & mask == 0));
        report.hash_fold = report.hash_fold.wrapping_add(rec.hash.low());
        if index < KEEP_RUN_HASHES {
            report.run_hashes.push((index, rec.hash.hex()));
        }
        if report.samples.len() < 2 && (index / stride) % 97 == 0 {
            report
                .samples
                .push(json!({"run": index, "seed": seed, "plan": engine.sample(&plan)}));
        }
        let mut taint = rec.tainted;
        if let Some(v) = &rec.violation {
            report.violating_runs += 1;
            let class = v.class();
            if classes_seen.insert(class.clone()) && classes_seen.len() <= 4 {
                let original_size = engine.plan_size(&plan);
                let mut file = ReplayFile {
                    engine: E::NAME.to_string(),
                    property: E::PROPERTY.to_string(),
                    class: class.clone(),
                    detail: v.detail.clone(),
                    master_seed,
                    run_index: index,
                    run_seed: seed,
                    original_size,
                    minimised_size: original_size,
                    shrink_executions: 0,
                    plan: serde_json::to_value(&plan).unwrap_or(Value::Null),
                    history: Vec::new(),
                    tier: tier.name().to_string(),
                };
                if rec.tainted {
                    // no shrinking in a tainted process: later executions would not be trustworthy
                    report.violations.push(file);
                } else if class_in_fresh_process(&file).as_deref() == Some(class.as_str()) {
                    let (min_plan, shrink_executions) = shrink(&mut engine, plan.clone(), &class, 600);
                    let rec2 = execute_guarded(&mut engine, &min_plan, false);
                    if let Some(v2) = &rec2.violation {
                        file.detail = v2.detail.clone();
                    }
                    let mut minimised = file.clone();
                    minimised.minimised_size = engine.plan_size(&min_plan);
                    minimised.shrink_executions = shrink_executions;
                    minimised.plan = serde_json::to_value(&min_plan).unwrap_or(Value::Null);
                    // the shrinking ran in this (long-lived) process: keep its result only if
                    // it also stands on its own in a fresh one
                    if minimised.minimised_size < original_size && class_in_fresh_process(&minimised).as_deref() != Some(class.as_str()) {
                        report.violations.push(file);
                    } else {
                        report.violations.push(minimised);
                    }
                } else {
                    // The same Plan does not fail in a fresh process: what this process did
                    // before matters. Keep the history, minimise it, and retire the process.
                    file.history = history.clone();
                    if class_in_fresh_process(&file).as_deref() == Some(class.as_str()) {
                        let (h, trials) = shrink_history(&file, &class);
                        file.history = h;
                        file.shrink_executions = trials;
                        file.minimised_size = original_size + file.history.len();
                        file.detail = format!("{} [only when {} earlier runs of the batch are executed in the same process first: state leaks between contexts/runs]", file.detail, file.history.len());
                        report.violations.push(file);
                    } else {
                        // not even with its history: leave it to the driver to call that out
                        file.history.clear();
                        report.violations.push(file);
                    }
                    taint = true;
                }
            }
        }
        history.push(index);
        index += stride;
        if taint {
            report.resume_at = Some(index);
            break;
        }
    }
    let _ = std::fs::remove_file(&cur_path);
    report.sigs = sigs.into_iter().collect();
    report.busy_s = started.elapsed().as_secs_f64();
    let text = serde_json::to_string(&report).expect("report serialises");
    let _ = writeln!(out, "{}", text);
    let _ = out.flush();
    // (process::exit runs no destructors: give the engine's scratch tree back first)
    drop(engine);
    if report.resume_at.is_some() {
        std::process::exit(EXIT_TAINTED);
    }
}

/// Replay a plan in this process. Returns the violation, if any, after printing the log.
pub fn replay<E: Engine>(file: &ReplayFile, verbose: bool) -> Option<Violation> {
    let tier = Tier::parse(&file.tier).unwrap_or(Tier::Quick);
    let mut engine = E::new(tier);
    if !file.history.is_empty() {
        println!("executing {} earlier runs of the batch in this process first", file.history.len());
        for index in &file.history {
            let seed = run_seed(file.master_seed, E::NAME, *index);
            let plan = engine.generate(*index, seed, tier);
            let _ = execute_guarded(&mut engine, &plan, false);
        }
    }
    let plan: E::Plan = match serde_json::from_value(file.plan.clone()) {
        Ok(p) => p,
        Err(e) => {
            eprintln!("cannot decode plan: {e}");
            std::process::exit(2);
        }
    };
    let rec = execute_guarded(&mut engine, &plan, true);
    if verbose {
        for line in &rec.lines {
            println!("  {}", line);
        }
    }
    println!("log-hash {}", rec.hash.hex());
    rec.violation
}

/// The plan of run `index`, for attributing a worker's death (driver side)
pub fn plan_of<E: Engine>(tier: Tier, master_seed: u64, index: u64) -> ReplayFile {
    let engine = E::new(tier);
    let seed = run_seed(master_seed, E::NAME, index);
    let plan = engine.generate(index, seed, tier);
    let size = engine.plan_size(&plan);
    ReplayFile {
        engine: E::NAME.to_string(),
        property: E::PROPERTY.to_string(),
        class: String::new(),
        detail: String::new(),
        master_seed,
        run_index: index,
        run_seed: seed,
        original_size: size,
        minimised_size: size,
        shrink_executions: 0,
        plan: serde_json::to_value(&plan).unwrap_or(Value::Null),
        history: Vec::new(),
        tier: tier.name().to_string(),
    }
}

/// Replay a file in a fresh process (through `sim replay`, which puts the execution in
/// a child of its own); the class of the violation it reports, if any
pub fn class_in_fresh_process(file: &ReplayFile) -> Option<String> {
    static COUNTER: std::sync::atomic::AtomicU64 = std::sync::atomic::AtomicU64::new(0);
    let n = COUNTER.fetch_add(1, std::sync::atomic::Ordering::Relaxed);
    let path = crate::util::scratch_base().join(format!("probe-{}-{}.json", std::process::id(), n));
    std::fs::write(&path, serde_json::to_string(file).ok()?).ok()?;
    let out = std::process::Command::new(std::env::current_exe().ok()?)
        .arg("replay")
        .arg(&path)
        .arg("--quiet")
        .env("RUST_BACKTRACE", "0")
        .stderr(std::process::Stdio::null())
        .output();
    let _ = std::fs::remove_file(&path);
    let out = out.ok()?;
    if out.status.code() != Some(1) {
        return None;
    }
    String::from_utf8_lossy(&out.stdout).lines().find_map(|l| l.strip_prefix("class=").map(|c| c.to_string()))
}

/// ddmin over the history of a history-dependent violation, each trial in a fresh process
fn shrink_history(file: &ReplayFile, class: &str) -> (Vec<u64>, u64) {
    let started = std::time::Instant::now();
    let mut best = file.history.clone();
    let mut trials = 0u64;
    let mut chunks = 2usize;
    while best.len() >= 2 && trials < 60 && started.elapsed().as_secs() < 120 {
        let size = best.len().div_ceil(chunks);
        let mut reduced = false;
        let mut start = 0;
        while start < best.len() {
            let end = (start + size).min(best.len());
            let mut cand = file.clone();
            cand.history = [&best[..start], &best[end..]].concat();
            trials += 1;
            if class_in_fresh_process(&cand).as_deref() == Some(class) {
                best = cand.history;
                chunks = chunks.saturating_sub(1).max(2);
                reduced = true;
                break;
            }
            if trials >= 60 || started.elapsed().as_secs() >= 120 {
                break;
            }
            start = end;
        }
        if !reduced {
            if chunks >= best.len() {
                break;
            }
            chunks = (chunks * 2).min(best.len());
        }
    }
    (best, trials)
}
