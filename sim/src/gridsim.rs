//! C15: grid files decode faithfully; damaged files are rejected, never a crash.
//!   gridsim-a  fault enumeration at the decoder seam (truncations, bit flips, torn blocks)
//!   gridsim-b  fault-free: harness-encoded grids must decode to what was written
//!   gridsim-c  crash-and-recovery of grid installation seen through Plain and its cache

use crate::alloc;
use crate::engine::{Engine, EngineInfo, Recorder, Tier};
use crate::gridcodec::{parse_gsa, GravsoftSpec, Ntv2Spec, SubGridSpec};
use crate::rng::Rng;
use crate::util::{self, catch, Hash128, Scratch};
use geodesy::authoring::*;
use serde::{Deserialize, Serialize};
use std::collections::BTreeMap;
use std::path::PathBuf;
use std::sync::Arc;

fn repo() -> PathBuf {
    PathBuf::from(std::env::var("VERIF_REPO").unwrap_or_else(|_| "/repo".to_string()))
}

fn decode(ext: &str, bytes: &[u8]) -> Result<Arc<dyn Grid>, Error> {
    if ext == "gsb" {
        Ok(Arc::new(Ntv2Grid::new(bytes)?))
    } else {
        Ok(Arc::new(BaseGrid::gravsoft(bytes)?))
    }
}

/// Geometry used to aim the queries: (lon_min, lon_max, lat_min, lat_max, cell_lon, cell_lat)
#[derive(Clone, Copy, Debug)]
struct Aim {
    lon0: f64,
    lon1: f64,
    lat0: f64,
    lat1: f64,
    dlon: f64,
    dlat: f64,
}

fn gravsoft_header(bytes: &[u8]) -> (Vec<f64>, usize) {
    // first six numbers, and the offset of the end of the line holding the sixth
    let text = String::from_utf8_lossy(bytes);
    let mut nums = Vec::new();
    let mut pos = 0usize;
    for line in text.split_inclusive('\n') {
        let code = line.split('#').next().unwrap_or("");
        for tok in code.split_whitespace() {
            if nums.len() < 6 {
                nums.push(tok.parse::<f64>().unwrap_or(f64::NAN));
            }
        }
        pos += line.len();
        if nums.len() >= 6 {
            break;
        }
    }
    (nums, pos.min(bytes.len()))
}

fn aim_gravsoft(bytes: &[u8]) -> Aim {
    let (h, _) = gravsoft_header(bytes);
    if h.len() < 6 {
        return Aim { lon0: 0.0, lon1: 1.0, lat0: 0.0, lat1: 1.0, dlon: 0.1, dlat: 0.1 };
    }
    let projected = h.iter().take(4).any(|v| v.abs() > 720.0);
    let f = |v: f64| if projected { v } else { v.to_radians() };
    Aim {
        lon0: f(h[2]),
        lon1: f(h[3]),
        lat0: f(h[0]),
        lat1: f(h[1]),
        dlon: f(h[5]).abs(),
        dlat: f(h[4]).abs(),
    }
}

fn rd_f64(b: &[u8], off: usize, be: bool) -> f64 {
    let Some(s) = b.get(off..off + 8) else { return f64::NAN };
    let a: [u8; 8] = s.try_into().unwrap();
    if be {
        f64::from_be_bytes(a)
    } else {
        f64::from_le_bytes(a)
    }
}
fn rd_u32(b: &[u8], off: usize, be: bool) -> u32 {
    let Some(s) = b.get(off..off + 4) else { return 0 };
    let a: [u8; 4] = s.try_into().unwrap();
    if be {
        u32::from_be_bytes(a)
    } else {
        u32::from_le_bytes(a)
    }
}

/// Own walk over a pristine NTv2 file: header byte ranges and overall extent
fn ntv2_layout(bytes: &[u8]) -> (Vec<(usize, usize)>, Aim) {
    let be = bytes.get(8).copied().unwrap_or(11) != 11;
    let n = rd_u32(bytes, 40, be) as usize;
    let mut headers = vec![(0usize, 176usize.min(bytes.len()))];
    let mut off = 176usize;
    let mut aim = Aim { lon0: f64::INFINITY, lon1: f64::NEG_INFINITY, lat0: f64::INFINITY, lat1: f64::NEG_INFINITY, dlon: 1e-3, dlat: 1e-3 };
    for _ in 0..n.min(64) {
        if off + 176 > bytes.len() {
            break;
        }
        headers.push((off, off + 176));
        let sec = |v: f64| (v / 3600.0).to_radians();
        let s = sec(rd_f64(bytes, off + 72, be));
        let nn = sec(rd_f64(bytes, off + 88, be));
        let e = -sec(rd_f64(bytes, off + 104, be));
        let w = -sec(rd_f64(bytes, off + 120, be));
        aim.lon0 = aim.lon0.min(w);
        aim.lon1 = aim.lon1.max(e);
        aim.lat0 = aim.lat0.min(s);
        aim.lat1 = aim.lat1.max(nn);
        aim.dlat = sec(rd_f64(bytes, off + 136, be)).abs();
        aim.dlon = sec(rd_f64(bytes, off + 152, be)).abs();
        let count = rd_u32(bytes, off + 168, be) as usize;
        off += 176 + count * 16;
    }
    if !aim.lon0.is_finite() {
        aim = Aim { lon0: 0.0, lon1: 1.0, lat0: 0.0, lat1: 1.0, dlon: 0.1, dlat: 0.1 };
    }
    (headers, aim)
}

// margins as the library uses them (0, tiny, half a cell) and larger; the property
// quantifies over query *points*, so negative/NaN margins are not demanded
const MARGINS: [f64; 5] = [0.0, 1e-6, 0.5, 1.0, 1e9];

/// The fixed query set run after every decode that returns Ok. Returns a digest.
fn probe(grid: &dyn Grid, aim: &Aim) -> u64 {
    let mut h = Hash128::new();
    h.u64(grid.bands() as u64);
    let mut points: Vec<(f64, f64)> = Vec::new();
    let (x0, x1, y0, y1) = (aim.lon0, aim.lon1, aim.lat0, aim.lat1);
    let (dx, dy) = (aim.dlon, aim.dlat);
    // corners, centre, edges +- half a cell, lattice over the extent grown by one cell
    for fx in [0.0, 0.25, 0.5, 0.75, 1.0] {
        for fy in [0.0, 0.25, 0.5, 0.75, 1.0] {
            points.push((x0 + fx * (x1 - x0), y0 + fy * (y1 - y0)));
        }
    }
    for (px, py) in [(x0, y0), (x0, y1), (x1, y0), (x1, y1)] {
        for (sx, sy) in [(-0.5, 0.0), (0.5, 0.0), (0.0, -0.5), (0.0, 0.5), (-0.49, -0.49), (0.51, 0.51), (-1.5, 1.5)] {
            points.push((px + sx * dx, py + sy * dy));
        }
    }
    points.push((1e9, 1e9));
    points.push((-1e300, 1e300));
    points.push((f64::NAN, y0));
    points.push((x0, f64::NAN));
    points.push((f64::INFINITY, f64::NEG_INFINITY));
    points.push((0.0, 0.0));
    points.push((-0.0, 5e-324));
    for (x, y) in points {
        let c = Coor4D([x, y, 0.0, 0.0]);
        for m in MARGINS {
            let inside = grid.contains(&c, m);
            let v = grid.at(&c, m);
            h.u64(inside as u64);
            match v {
                Some(v) => {
                    for k in 0..4 {
                        h.u64(if v[k].is_nan() { 1 } else { v[k].to_bits() });
                    }
                }
                None => h.u64(0),
            }
        }
    }
    h.low()
}

// ====================================================================================
// gridsim-a
// ====================================================================================

#[derive(Serialize, Deserialize, Clone, Debug, PartialEq)]
pub enum Fault {
    None,
    /// keep the first `len` bytes (crash during installation)
    Truncate { len: usize },
    /// keep the first `len` bytes, zero-fill up to the original size (torn write)
    TruncateZeroFill { len: usize },
    Flip { byte: usize, bit: u8 },
    Zero { offset: usize, len: usize },
    Duplicate { offset: usize, len: usize },
    /// first `offset` bytes of this file, rest of another file of the same format
    Splice { offset: usize, other: String },
    Random { offset: usize, len: usize, seed: u64 },
    /// overwrite a header number/field with an extreme value
    Poke { offset: usize, bytes: Vec<u8> },
    /// a sub-grid header rewritten *coherently* to announce side x side nodes (limits,
    /// increments and GS_COUNT agree with each other, the file is as short as before)
    HugeConsistent { subgrid: usize, side: u32 },
    /// a multi-byte UTF-8 character written at a header offset (text fields are sliced
    /// at fixed byte positions): which = 0 two bytes, 1 three bytes, 2 four bytes
    Utf8 { offset: usize, which: u8 },
}

#[derive(Serialize, Deserialize, Clone, Debug, PartialEq)]
pub struct PlanA {
    pub file: String,
    pub fault: Fault,
}

struct BaseFile {
    name: String,
    ext: String,
    bytes: Vec<u8>,
    header_bytes: Vec<usize>,
    aim: Aim,
    trunc: Vec<usize>,
    multi: u64,
    exhaustive_trunc: bool,
}

pub struct GridSimA {
    files: Vec<BaseFile>,
    /// prefix sums of the number of cases per file
    starts: Vec<u64>,
    total: u64,
}

fn ext_of(name: &str) -> String {
    name.rsplit('.').next().unwrap_or("").to_string()
}

const SHIPPED: &[&str] = &[
    "gsb/5458.gsb",
    "gsb/5458_with_subgrid.gsb",
    "gsb/100800401.gsb",
    "datum/test.datum",
    "datum/test_subset.datum",
    "geoid/test.geoid",
    "deformation/test.deformation",
    "deformation/another_test.deformation",
];
const BIG: &str = "deformation/eur_nkg_nkgrf17vel.deformation";

fn poke_values() -> Vec<Vec<u8>> {
    vec![
        0u32.to_le_bytes().to_vec(),
        u32::MAX.to_le_bytes().to_vec(),
        (i32::MAX as u32).to_le_bytes().to_vec(),
        0f64.to_le_bytes().to_vec(),
        f64::NAN.to_le_bytes().to_vec(),
        f64::INFINITY.to_le_bytes().to_vec(),
        1e300f64.to_le_bytes().to_vec(),
        (-1e-300f64).to_le_bytes().to_vec(),
        5e-324f64.to_le_bytes().to_vec(),
        b"0 0 0 0 0 0 ".to_vec(),
        b"1e308 -1e308 ".to_vec(),
        b"NaN inf -inf ".to_vec(),
        b"1e-320 ".to_vec(),
        b"\xff\xfe\xfd".to_vec(),
    ]
}

impl GridSimA {
    fn base(name: &str, bytes: Vec<u8>, tier: Tier, big: bool) -> BaseFile {
        let ext = ext_of(name);
        let (header_bytes, aim) = if ext == "gsb" {
            let (ranges, aim) = ntv2_layout(&bytes);
            let mut hb = Vec::new();
            for (a, b) in ranges {
                hb.extend(a..b);
            }
            (hb, aim)
        } else {
            let (_, end) = gravsoft_header(&bytes);
            ((0..end).collect(), aim_gravsoft(&bytes))
        };
        let (trunc, exhaustive_trunc): (Vec<usize>, bool) = if big {
            // every line boundary (thorough) or a fixed subsample (quick), plus interior offsets
            let mut lines: Vec<usize> = bytes.iter().enumerate().filter(|(_, b)| **b == b'\n').map(|(i, _)| i + 1).collect();
            let mut rng = Rng::new(0xB16_F11E);
            let (keep_lines, interior) = match tier {
                Tier::Quick => (120, 60),
                Tier::Thorough => (lines.len(), 2000),
            };
            if lines.len() > keep_lines {
                rng.shuffle(&mut lines);
                lines.truncate(keep_lines);
            }
            for _ in 0..interior {
                lines.push(rng.below(bytes.len()));
            }
            lines.sort();
            lines.dedup();
            (lines, false)
        } else {
            ((0..=bytes.len()).collect(), true)
        };
        let multi = match (tier, big) {
            (Tier::Quick, true) => 60,
            (Tier::Quick, false) => 12_000,
            (Tier::Thorough, true) => 1500,
            (Tier::Thorough, false) => 250_000,
        };
        BaseFile {
            name: name.to_string(),
            ext,
            bytes,
            header_bytes,
            aim,
            trunc,
            multi,
            exhaustive_trunc,
        }
    }

    fn huge_cases(f: &BaseFile) -> u64 {
        if f.ext == "gsb" {
            // per sub-grid header: 2^24, 2^28, 2^30 and (2^16-1)^2 nodes
            4 * (f.header_bytes.len() as u64 / 176).saturating_sub(1)
        } else {
            0
        }
    }

    fn cases(f: &BaseFile) -> u64 {
        1 + f.trunc.len() as u64 + 8 * f.header_bytes.len() as u64 + 3 * f.header_bytes.len() as u64 + Self::huge_cases(f) + f.multi
    }
}

impl Engine for GridSimA {
    type Plan = PlanA;
    const NAME: &'static str = "gridsim-a";
    const PROPERTY: &'static str = "C15";

    fn new(tier: Tier) -> Self {
        let mut files = Vec::new();
        let geodesy = repo().join("geodesy");
        for name in SHIPPED {
            let bytes = std::fs::read(geodesy.join(name)).unwrap_or_default();
            files.push(Self::base(name, bytes, tier, false));
        }
        let bytes = std::fs::read(geodesy.join(BIG)).unwrap_or_default();
        files.push(Self::base(BIG, bytes, tier, true));
        // generated, well-formed base files (fixed harness seeds)
        let n_gen = match tier {
            Tier::Quick => 6,
            Tier::Thorough => 24,
        };
        for k in 0..n_gen {
            let mut rng = Rng::new(0x6E0_0000 + k);
            let g = GravsoftSpec::generate(&mut rng);
            files.push(Self::base(&format!("gen/g{}.{}", k, ["geoid", "datum", "deformation"][g.bands - 1]), g.encode(), tier, false));
            let n = Ntv2Spec::generate(&mut rng);
            files.push(Self::base(&format!("gen/n{}.gsb", k), n.encode(), tier, false));
        }
        let mut starts = Vec::new();
        let mut total = 0u64;
        for f in &files {
            starts.push(total);
            total += Self::cases(f);
        }
        GridSimA { files, starts, total }
    }

    fn info() -> EngineInfo {
        EngineInfo {
            rule: "gridsim-a: fault ENUMERATION at the decoder seam (BaseGrid::gravsoft / Ntv2Grid::new on a byte slice, then Grid::bands/contains/at). For each shipped grid file and each harness-generated well-formed file: the intact file; every truncation length (exhaustive for every file but one; the 2.8 MB deformation model: every line boundary in the thorough tier / a fixed subsample in quick, plus seeded interior offsets); every single-bit flip of every header byte (NTv2 overview and every sub-grid header record; the Gravsoft header line); a 2-, 3- and 4-byte UTF-8 character written at every header offset; every NTv2 sub-grid header rewritten coherently to announce 2^24 ... 2^32 nodes in a file as short as before; and a seeded sample of multi-byte corruptions (zeroed block = torn page, duplicated block, splice with another file of the same format, random bytes, truncate+zero-fill, extreme values poked into header fields). After every decode that returns Ok a fixed set of ~60 points x 5 margins (corners, edges +-half cell, lattice, far outside, NaN, inf, subnormal) is queried. A case is one (file, fault); all enumerated cases are distinct by construction; non-trivial = the fault changes the bytes.",
            real_components: &["geodesy grid decoders and Grid implementations (BaseGrid, Ntv2Grid)"],
            simulated_components: &["the storage: file contents after crash/truncation, media damage, torn writes"],
            assumptions: &[
                "the byte slice handed to the decoders is the storage seam: std::fs::read is all-or-nothing, so every disk state is some byte vector",
                "memory bound checked: peak heap growth during decode <= 64 x file size + 16 MiB (counting global allocator)",
            ],
            required_probes: &["decode_ok_after_fault", "decode_err", "queries_on_damaged_grid"],
            exhaustive: true,
        }
    }

    fn runs(&self, _tier: Tier) -> u64 {
        self.total
    }

    fn generate(&self, index: u64, seed: u64, _tier: Tier) -> PlanA {
        // which file?
        let mut fi = self.files.len() - 1;
        for (k, s) in self.starts.iter().enumerate() {
            if index < *s {
                fi = k - 1;
                break;
            }
        }
        let f = &self.files[fi];
        let mut k = index - self.starts[fi];
        let file = f.name.clone();
        if k == 0 {
            return PlanA { file, fault: Fault::None };
        }
        k -= 1;
        if k < f.trunc.len() as u64 {
            return PlanA { file, fault: Fault::Truncate { len: f.trunc[k as usize] } };
        }
        k -= f.trunc.len() as u64;
        if k < 8 * f.header_bytes.len() as u64 {
            return PlanA {
                file,
                fault: Fault::Flip {
                    byte: f.header_bytes[(k / 8) as usize],
                    bit: (k % 8) as u8,
                },
            };
        }
        k -= 8 * f.header_bytes.len() as u64;
        if k < 3 * f.header_bytes.len() as u64 {
            return PlanA {
                file,
                fault: Fault::Utf8 {
                    offset: f.header_bytes[(k / 3) as usize],
                    which: (k % 3) as u8,
                },
            };
        }
        k -= 3 * f.header_bytes.len() as u64;
        if k < Self::huge_cases(f) {
            return PlanA {
                file,
                fault: Fault::HugeConsistent {
                    subgrid: (k / 4) as usize,
                    side: [4096u32, 16384, 32768, 65535][(k % 4) as usize],
                },
            };
        }
        k -= Self::huge_cases(f);
        let _ = k;
        // seeded multi-byte corruption
        let mut rng = Rng::new(seed);
        let n = f.bytes.len().max(1);
        // bias offsets towards headers and block boundaries
        let offset = match rng.below(4) {
            0 if !f.header_bytes.is_empty() => *rng.pick(&f.header_bytes),
            1 => (rng.below(n) / 16) * 16,
            _ => rng.below(n),
        };
        let len = match rng.below(4) {
            0 => 1 + rng.below(8),
            1 => 16 * (1 + rng.below(12)),
            2 => 512,
            _ => 1 + rng.below(n),
        };
        let fault = match rng.below(7) {
            0 => Fault::Zero { offset, len },
            1 => Fault::Duplicate { offset, len },
            2 => {
                let same: Vec<&BaseFile> = self.files.iter().filter(|o| (o.ext == "gsb") == (f.ext == "gsb") && o.name != f.name && o.bytes.len() < 100_000).collect();
                Fault::Splice {
                    offset,
                    other: rng.pick(&same).name.clone(),
                }
            }
            3 => Fault::Random { offset, len: len.min(64), seed: rng.next_u64() },
            4 => Fault::TruncateZeroFill { len: offset },
            _ => {
                let off = if f.header_bytes.is_empty() { offset } else { *rng.pick(&f.header_bytes) };
                // NTv2: hit value fields (second half of the 16 byte records) mostly
                let off = if f.ext == "gsb" && rng.chance(0.8) { (off / 16) * 16 + 8 } else { off };
                Fault::Poke {
                    offset: off,
                    bytes: rng.pick(&poke_values()).clone(),
                }
            }
        };
        PlanA { file, fault }
    }

    fn plan_size(&self, _plan: &PlanA) -> usize {
        1
    }

    fn shrink_candidates(&self, plan: &PlanA) -> Vec<PlanA> {
        // a case is a single fault already; try the same fault on the smallest shipped file
        let mut out = Vec::new();
        if let Fault::Random { offset, len, seed } = &plan.fault {
            if *len > 1 {
                out.push(PlanA { file: plan.file.clone(), fault: Fault::Random { offset: *offset, len: len / 2, seed: *seed } });
            }
        }
        if let Fault::Zero { offset, len } = &plan.fault {
            if *len > 1 {
                out.push(PlanA { file: plan.file.clone(), fault: Fault::Zero { offset: *offset, len: len / 2 } });
            }
        }
        out
    }

    fn execute(&mut self, plan: &PlanA, rec: &mut Recorder) {
        rec.event();
        let Some(f) = self.files.iter().find(|f| f.name == plan.file) else {
            rec.log("unknown base file");
            return;
        };
        let mut bytes = f.bytes.clone();
        let n = bytes.len();
        match &plan.fault {
            Fault::None => {}
            Fault::Truncate { len } => {
                bytes.truncate(*len);
                rec.fault("truncation");
            }
            Fault::TruncateZeroFill { len } => {
                for b in bytes.iter_mut().skip(*len) {
                    *b = 0;
                }
                rec.fault("torn_write_zero_fill");
            }
            Fault::Flip { byte, bit } => {
                if let Some(b) = bytes.get_mut(*byte) {
                    *b ^= 1 << (bit % 8);
                }
                rec.fault("header_bit_flip");
            }
            Fault::Zero { offset, len } => {
                for b in bytes.iter_mut().skip(*offset).take(*len) {
                    *b = 0;
                }
                rec.fault("zeroed_block");
            }
            Fault::Duplicate { offset, len } => {
                let end = (offset + len).min(n);
                let block: Vec<u8> = bytes[(*offset).min(n)..end].to_vec();
                let at = end;
                bytes.splice(at..at, block);
                rec.fault("duplicated_block");
            }
            Fault::Splice { offset, other } => {
                if let Some(o) = self.files.iter().find(|o| &o.name == other) {
                    bytes.truncate(*offset);
                    if *offset < o.bytes.len() {
                        bytes.extend_from_slice(&o.bytes[*offset..]);
                    }
                }
                rec.fault("splice_of_two_files");
            }
            Fault::Random { offset, len, seed } => {
                let mut r = Rng::new(*seed);
                for b in bytes.iter_mut().skip(*offset).take(*len) {
                    *b = r.next_u64() as u8;
                }
                rec.fault("random_bytes");
            }
            Fault::HugeConsistent { subgrid, side } => {
                // header k starts at the k-th run of 176 header bytes after the overview
                let start = f.header_bytes.get(176 * (subgrid + 1)).copied();
                if let Some(h) = start {
                    let be = bytes.get(8).copied().unwrap_or(11) != 11;
                    let rd = |b: &[u8], off: usize| -> f64 { rd_f64(b, off, be) };
                    let (s_lat, e_long) = (rd(&bytes, h + 72), rd(&bytes, h + 104));
                    let inc = 1.0;
                    let n = (*side - 1) as f64;
                    let put = |b: &mut Vec<u8>, off: usize, v: f64| {
                        let raw = if be { v.to_be_bytes() } else { v.to_le_bytes() };
                        for (i, x) in raw.iter().enumerate() {
                            if let Some(t) = b.get_mut(off + i) {
                                *t = *x;
                            }
                        }
                    };
                    put(&mut bytes, h + 88, s_lat + n * inc); // N_LAT
                    put(&mut bytes, h + 120, e_long + n * inc); // W_LONG
                    put(&mut bytes, h + 136, inc); // LAT_INC
                    put(&mut bytes, h + 152, inc); // LONG_INC
                    let count = (*side as u64 * *side as u64).min(u32::MAX as u64) as u32;
                    let raw = if be { count.to_be_bytes() } else { count.to_le_bytes() };
                    for (i, x) in raw.iter().enumerate() {
                        if let Some(t) = bytes.get_mut(h + 168 + i) {
                            *t = *x;
                        }
                    }
                }
                rec.fault("coherent_huge_subgrid_header");
            }
            Fault::Utf8 { offset, which } => {
                let ch: &[u8] = match which % 3 {
                    0 => "\u{e9}".as_bytes(),
                    1 => "\u{20ac}".as_bytes(),
                    _ => "\u{1f30d}".as_bytes(),
                };
                for (i, b) in ch.iter().enumerate() {
                    if let Some(t) = bytes.get_mut(offset + i) {
                        *t = *b;
                    }
                }
                rec.fault("multibyte_utf8_in_header");
            }
            Fault::Poke { offset, bytes: v } => {
                for (i, b) in v.iter().enumerate() {
                    if let Some(t) = bytes.get_mut(offset + i) {
                        *t = *b;
                    }
                }
                rec.fault("extreme_header_value");
            }
        }
        let changed = bytes != f.bytes;
        if changed {
            rec.sig(util::hash_str(&format!("{:?}", plan)));
        }
        let ext = f.ext.clone();
        let aim = f.aim;
        let limit = 64 * f.bytes.len().max(bytes.len()) + (16 << 20);
        let baseline = alloc::mark();
        let decoded = catch(|| decode(&ext, &bytes));
        let peak = alloc::peak_above(baseline);
        if peak > limit {
            rec.violate(
                "I-mem",
                "decoding allocates far more than the file can justify",
                format!("{:?}: peak heap growth {} bytes for a {} byte file (largest single request {})", plan, peak, bytes.len(), alloc::largest_request()),
            );
            return;
        }
        match decoded {
            Err(panic) => {
                rec.violate("I-safe", &format!("decoder panics: {}", panic), format!("{:?}: {}", plan, panic));
            }
            Ok(Err(e)) => {
                if !changed {
                    rec.violate("I-faith", "an intact well-formed file is rejected", format!("{:?}: {}", plan, e));
                    return;
                }
                rec.probe("decode_err");
                rec.logf(|| format!("{} {:?} -> Err {}", plan.file, plan.fault, util::normalize_message(&e.to_string())));
            }
            Ok(Ok(grid)) => {
                if changed {
                    rec.probe("decode_ok_after_fault");
                }
                match catch(|| probe(grid.as_ref(), &aim)) {
                    Ok(d) => {
                        if changed {
                            rec.probe("queries_on_damaged_grid");
                        }
                        rec.logf(|| format!("{} {:?} -> Ok {:016x}", plan.file, plan.fault, d));
                    }
                    Err(panic) => {
                        rec.violate("I-safe", &format!("query on an accepted grid panics: {}", panic), format!("{:?}: {}", plan, panic));
                    }
                }
            }
        }
        let _ = f.exhaustive_trunc;
    }
}

// ====================================================================================
// gridsim-b: faithful decode of well-formed files
// ====================================================================================

#[derive(Serialize, Deserialize, Clone, Debug)]
pub enum PlanB {
    Gravsoft(GravsoftSpec),
    Ntv2(Ntv2Spec),
    /// shipped .gsb against its .gsa twin
    Twin(String),
    /// one base grid with a chain of this many nested sub-grids of the same extent
    DeepChain(u32),
}

pub struct GridSimB;

fn close(a: f64, b: f64) -> bool {
    (a - b).abs() <= 1e-6 * b.abs() + 1e-12
}

fn check_ntv2(rec: &mut Recorder, spec: &Ntv2Spec, grid: &dyn Grid, what: &str) {
    if grid.bands() != 2 {
        rec.violate("I-faith", "NTv2 grid does not report two bands", what.to_string());
        return;
    }
    let by_name: BTreeMap<&str, &SubGridSpec> = spec.subgrids.iter().map(|g| (g.name.as_str(), g)).collect();
    let children_of = |name: &str| -> Vec<&SubGridSpec> { spec.subgrids.iter().filter(|g| g.parent == name).collect() };
    let eps = 1e-9;
    for g in &spec.subgrids {
        let is_base = g.parent == "NONE" || !by_name.contains_key(g.parent.as_str());
        let kids = children_of(&g.name);
        for i in 0..g.rows {
            for j in 0..g.cols {
                let (lon, lat) = g.node_position(i, j);
                // nodes whose owner is ambiguous by the NTv2 rules are skipped:
                // inside (or on the edge of) a child, or on a child's own upper edges
                let in_kid = kids.iter().any(|k| {
                    let (w, e, s, n) = k.extent_rad();
                    lon >= w - eps && lon <= e + eps && lat >= s - eps && lat <= n + eps
                });
                if in_kid {
                    continue;
                }
                if !is_base && (i == g.rows - 1 || j == 0) {
                    // northern edge (last row from south) or eastern edge (j counts from east)
                    continue;
                }
                let c = Coor4D([lon, lat, 0.0, 0.0]);
                let (elon, elat) = g.node_expectation(i, j);
                match grid.at(&c, 0.01) {
                    Some(v) => {
                        if !(close(v[0], elon) && close(v[1], elat)) {
                            rec.violate(
                                "I-faith",
                                "NTv2 node value decoded differently from what the file holds",
                                format!("{}: sub-grid {} node (row {} from south, col {} from east) at lon {} lat {}: decoded ({}, {}) written ({}, {})", what, g.name, i, j, lon, lat, v[0], v[1], elon, elat),
                            );
                            return;
                        }
                    }
                    None => {
                        rec.violate("I-faith", "NTv2 node position not covered by the decoded grid", format!("{}: sub-grid {} node ({}, {}) lon {} lat {}", what, g.name, i, j, lon, lat));
                        return;
                    }
                }
            }
        }
    }
    // geometry: two cells outside the union of base grids is outside
    let bases: Vec<&SubGridSpec> = spec.subgrids.iter().filter(|g| g.parent == "NONE").collect();
    if let Some(b) = bases.first() {
        let (w, _e, s, _n) = b.extent_rad();
        let far = Coor4D([w - 50.0_f64.to_radians(), s - 60.0_f64.to_radians(), 0.0, 0.0]);
        if bases.len() == 1 && (grid.contains(&far, 0.0) || grid.at(&far, 0.5).is_some()) {
            rec.violate("I-faith", "point far outside every sub-grid is reported as covered", what.to_string());
        }
    }
}

impl Engine for GridSimB {
    type Plan = PlanB;
    const NAME: &'static str = "gridsim-b";
    const PROPERTY: &'static str = "C15";

    fn new(_tier: Tier) -> Self {
        GridSimB
    }

    fn info() -> EngineInfo {
        EngineInfo {
            rule: "gridsim-b (fault-free configuration): the harness's own encoders write Gravsoft text grids (1/2/3 bands, geographic or projected bounds, seeded whitespace/line-break/comment/number-format layout, LF or CRLF) and NTv2 binaries (little and big endian, 1-3 base grids with children and grandchildren, shuffled file order) from seeded geometry and exactly representable node values; the decoded grid must report the written band count, cover every node, return the written value at every node after the documented sign/order/unit conventions, decode identically from the LE and BE rendering, and not cover points far outside. The shipped .gsb files are compared with their .gsa twins. Distinct = distinct (format, geometry, layout) hash; all generated grids have >= 4 nodes (non-trivial).",
            real_components: &["geodesy grid decoders and Grid::at/contains/bands"],
            simulated_components: &["grid file contents (harness encoders written from the format descriptions)"],
            assumptions: &["node values are read back through Grid::at at the node positions with a 1e-6 relative tolerance (f32 storage and interpolation arithmetic at the node)"],
            required_probes: &["gravsoft_1band", "gravsoft_2band", "gravsoft_3band", "gravsoft_projected", "ntv2_big_endian", "ntv2_with_children", "ntv2_grandchild", "ntv2_siblings_sharing_an_edge", "gsa_twin"],
            exhaustive: false,
        }
    }

    fn runs(&self, tier: Tier) -> u64 {
        match tier {
            Tier::Quick => 800_000,
            Tier::Thorough => 8_000_000,
        }
    }

    fn generate(&self, index: u64, seed: u64, _tier: Tier) -> PlanB {
        if index == 0 {
            return PlanB::Twin("5458".to_string());
        }
        if index == 1 {
            return PlanB::Twin("5458_with_subgrid".to_string());
        }
        let mut rng = Rng::new(seed);
        if rng.chance(0.00002) {
            // a very deep parent/child chain (tens of thousands of levels): legal, if odd
            return PlanB::DeepChain(20_000 + rng.below(20_000) as u32);
        }
        if rng.chance(0.5) {
            PlanB::Gravsoft(GravsoftSpec::generate(&mut rng))
        } else {
            PlanB::Ntv2(Ntv2Spec::generate(&mut rng))
        }
    }

    fn plan_size(&self, plan: &PlanB) -> usize {
        match plan {
            PlanB::Gravsoft(g) => g.rows * g.cols * g.bands,
            PlanB::Ntv2(n) => n.subgrids.len(),
            PlanB::Twin(_) => 1,
            PlanB::DeepChain(n) => *n as usize,
        }
    }

    fn sample(&self, plan: &PlanB) -> serde_json::Value {
        match plan {
            PlanB::Gravsoft(g) => serde_json::json!({"format":"gravsoft","rows":g.rows,"cols":g.cols,"bands":g.bands,"projected":g.projected,"header":[g.lat_s,g.lat_n,g.lon_w,g.lon_e,g.dlat,g.dlon],"file_head": String::from_utf8_lossy(&g.encode()).chars().take(160).collect::<String>()}),
            PlanB::Ntv2(n) => serde_json::json!({"format":"ntv2","big_endian":n.big_endian,"subgrids": n.subgrids.iter().map(|s| format!("{}<-{} {}x{}", s.name, s.parent, s.rows, s.cols)).collect::<Vec<_>>()}),
            PlanB::Twin(t) => serde_json::json!({"twin": t}),
            PlanB::DeepChain(n) => serde_json::json!({"format":"ntv2","nested_levels": n}),
        }
    }

    fn shrink_candidates(&self, plan: &PlanB) -> Vec<PlanB> {
        let mut out = Vec::new();
        match plan {
            PlanB::Gravsoft(g) => {
                if g.layout_seed != 0 {
                    let mut c = g.clone();
                    c.layout_seed = 0;
                    out.push(PlanB::Gravsoft(c));
                }
            }
            PlanB::Ntv2(n) => {
                for k in 0..n.subgrids.len() {
                    // dropping a grid that has children would orphan them: only drop leaves
                    let name = &n.subgrids[k].name;
                    if n.subgrids.iter().any(|g| &g.parent == name) || n.subgrids.len() == 1 {
                        continue;
                    }
                    let mut c = n.clone();
                    c.subgrids.remove(k);
                    out.push(PlanB::Ntv2(c));
                }
                if n.big_endian {
                    let mut c = n.clone();
                    c.big_endian = false;
                    out.push(PlanB::Ntv2(c));
                }
            }
            PlanB::Twin(_) => {}
            PlanB::DeepChain(n) => {
                if *n > 2 {
                    out.push(PlanB::DeepChain(n / 2));
                    out.push(PlanB::DeepChain(n - 1));
                }
            }
        }
        out
    }

    fn execute(&mut self, plan: &PlanB, rec: &mut Recorder) {
        rec.event();
        match plan {
            PlanB::DeepChain(levels) => {
                rec.probe("ntv2_very_deep_nesting");
                use crate::gridcodec::SubGridSpec;
                let mut subgrids = Vec::with_capacity(*levels as usize + 1);
                for k in 0..=*levels {
                    let v = (k % 1000) as f32 / 8.0;
                    subgrids.push(SubGridSpec {
                        name: format!("L{}", k),
                        parent: if k == 0 { "NONE".to_string() } else { format!("L{}", k - 1) },
                        s_lat: 0.0,
                        n_lat: 3600.0,
                        e_long: -3600.0,
                        w_long: 0.0,
                        lat_inc: 3600.0,
                        long_inc: 3600.0,
                        rows: 2,
                        cols: 2,
                        nodes: vec![(v, -v); 4],
                    });
                }
                let spec = Ntv2Spec { big_endian: levels % 2 == 1, subgrids, meta: 0 };
                let bytes = spec.encode();
                rec.sig(util::hash_str(&format!("deep{}", levels)));
                // decoded and queried on a thread with Rust's default stack of 2 MiB (what a
                // library user's worker thread has), not on this process's 8 MiB main stack
                let r = catch(|| {
                    std::thread::scope(|s| {
                        std::thread::Builder::new()
                            .stack_size(2 << 20)
                            .spawn_scoped(s, || {
                                let grid = Ntv2Grid::new(&bytes)?;
                                // a point inside every level: the deepest grid answers
                                let c = Coor4D([0.5_f64.to_radians(), 0.5_f64.to_radians(), 0.0, 0.0]);
                                Ok::<_, Error>((grid.at(&c, 0.0), grid.contains(&c, 0.0)))
                            })
                            .expect("spawn")
                            .join()
                            .unwrap_or_else(|_| panic!("decoder or query panicked on the worker thread"))
                    })
                });
                match r {
                    Ok(Ok((Some(v), true))) => {
                        let want = (((*levels % 1000) as f64 / 8.0) / 3600.0).to_radians();
                        if (v[0] - want).abs() > 1e-6 * want.abs() + 1e-12 {
                            rec.violate("I-faith", "NTv2 node value decoded differently from what the file holds", format!("{} nested sub-grids: the innermost one should answer with {} but the lookup gives {}", levels, want, v[0]));
                        }
                    }
                    Ok(Ok(other)) => rec.violate("I-faith", "NTv2 node position not covered by the decoded grid", format!("{} nested sub-grids: {:?}", levels, other.1)),
                    Ok(Err(e)) => rec.violate("I-faith", "a well-formed NTv2 file is rejected", format!("{} nested sub-grids: {}", levels, e)),
                    Err(p) => rec.violate("I-safe", &format!("decoder panics: {}", p), p.clone()),
                }
                rec.logf(|| format!("deep chain {} ok", levels));
            }
            PlanB::Twin(stem) => {
                rec.probe("gsa_twin");
                let dir = repo().join("geodesy").join("gsb");
                let gsb = std::fs::read(dir.join(format!("{stem}.gsb"))).unwrap_or_default();
                let gsa = std::fs::read_to_string(dir.join(format!("{stem}.gsa"))).unwrap_or_default();
                let Some(spec) = parse_gsa(&gsa) else {
                    rec.log("gsa twin unreadable by the harness reader: skipped");
                    return;
                };
                rec.sig(util::hash_str(stem));
                match catch(|| Ntv2Grid::new(&gsb)) {
                    Ok(Ok(grid)) => check_ntv2(rec, &spec, &grid, &format!("{stem}.gsb vs {stem}.gsa")),
                    Ok(Err(e)) => rec.violate("I-faith", "shipped NTv2 file rejected", format!("{stem}: {e}")),
                    Err(p) => rec.violate("I-safe", &format!("decoder panics: {}", p), format!("{stem}: {p}")),
                }
                rec.logf(|| format!("twin {} checked", stem));
            }
            PlanB::Gravsoft(g) => {
                rec.probe(match g.bands {
                    1 => "gravsoft_1band",
                    2 => "gravsoft_2band",
                    _ => "gravsoft_3band",
                });
                if g.projected {
                    rec.probe("gravsoft_projected");
                }
                let bytes = g.encode();
                rec.sig(util::hash_str(&String::from_utf8_lossy(&bytes)));
                let grid = match catch(|| BaseGrid::gravsoft(&bytes)) {
                    Ok(Ok(grid)) => grid,
                    Ok(Err(e)) => {
                        rec.violate("I-faith", "a well-formed Gravsoft file is rejected", format!("{e}: file:\n{}", String::from_utf8_lossy(&bytes)));
                        return;
                    }
                    Err(p) => {
                        rec.violate("I-safe", &format!("decoder panics: {}", p), format!("{p}: file:\n{}", String::from_utf8_lossy(&bytes)));
                        return;
                    }
                };
                if grid.bands() != g.bands {
                    rec.violate("I-faith", "Gravsoft band count decoded differently from what the file holds", format!("written {} decoded {}", g.bands, grid.bands()));
                    return;
                }
                let scale = g.values.iter().fold(0.0f64, |m, v| m.max(v.abs()));
                let r = catch(|| {
                    for row in 0..g.rows {
                        for col in 0..g.cols {
                            let (lon, lat) = g.node_position(row, col);
                            let c = Coor4D([lon, lat, 0.0, 0.0]);
                            let want = g.node_expectation(row, col);
                            let Some(v) = grid.at(&c, 0.01) else {
                                return Some(("Gravsoft node position not covered by the decoded grid".to_string(), format!("node ({row},{col}) lon {lon} lat {lat}")));
                            };
                            for (k, w) in want.iter().enumerate() {
                                // f32 storage, and interpolation weights a few ulp off 0/1 at a node
                                let tol = 1e-6 * w.abs() + 1e-9 * scale + 1e-12;
                                if (v[k] - w).abs() > tol {
                                    return Some(("Gravsoft node value decoded differently from what the file holds".to_string(), format!("node ({row},{col}) band {k}: decoded {} written {} (bands {}, projected {})", v[k], w, g.bands, g.projected)));
                                }
                            }
                        }
                    }
                    // geometry: two cells beyond each side is outside
                    let (dx, dy) = g.cell();
                    let (w, n) = g.node_position(0, 0);
                    let (e, s) = g.node_position(g.rows - 1, g.cols - 1);
                    for (x, y) in [(w - 2.0 * dx, n), (e + 2.0 * dx, s), (w, n + 2.0 * dy), (e, s - 2.0 * dy)] {
                        let c = Coor4D([x, y, 0.0, 0.0]);
                        if grid.contains(&c, 0.0) || grid.at(&c, 0.5).is_some() {
                            return Some(("point two cells outside the written extent is reported as covered".to_string(), format!("point ({x}, {y})")));
                        }
                    }
                    None
                });
                match r {
                    Ok(None) => rec.logf(|| format!("gravsoft {}x{}x{} ok", g.rows, g.cols, g.bands)),
                    Ok(Some((m, d))) => rec.violate("I-faith", &m, format!("{d}; file:\n{}", String::from_utf8_lossy(&bytes))),
                    Err(p) => rec.violate("I-safe", &format!("query on a well-formed grid panics: {}", p), p.clone()),
                }
            }
            PlanB::Ntv2(n) => {
                if n.big_endian {
                    rec.probe("ntv2_big_endian");
                }
                if n.subgrids.iter().any(|g| g.parent != "NONE") {
                    rec.probe("ntv2_with_children");
                }
                if n.subgrids.iter().any(|g| g.name.starts_with('G')) {
                    rec.probe("ntv2_grandchild");
                }
                if n.subgrids.iter().any(|g| g.name.starts_with('W') || g.name.starts_with('S')) {
                    rec.probe("ntv2_siblings_sharing_an_edge");
                }
                let bytes = n.encode();
                let mut h = Hash128::new();
                h.bytes(&bytes);
                rec.sig(h.low());
                let mut other = n.clone();
                other.big_endian = !n.big_endian;
                let bytes_other = other.encode();
                let both = catch(|| (Ntv2Grid::new(&bytes), Ntv2Grid::new(&bytes_other)));
                let (a, b) = match both {
                    Ok((Ok(a), Ok(b))) => (a, b),
                    Ok((a, b)) => {
                        rec.violate("I-faith", "a well-formed NTv2 file is rejected", format!("big_endian={} -> {:?}; other byte order -> {:?}; subgrids {:?}", n.big_endian, a.err().map(|e| e.to_string()), b.err().map(|e| e.to_string()), n.subgrids.iter().map(|s| (&s.name, &s.parent, s.rows, s.cols)).collect::<Vec<_>>()));
                        return;
                    }
                    Err(p) => {
                        rec.violate("I-safe", &format!("decoder panics: {}", p), p.clone());
                        return;
                    }
                };
                let r = catch(|| {
                    let mut rec2 = Recorder::new("C15", false);
                    check_ntv2(&mut rec2, n, &a, &format!("generated NTv2 (big_endian={})", n.big_endian));
                    if rec2.violation.is_none() {
                        // both byte orders decode to the same grid
                        for g in &n.subgrids {
                            for i in 0..g.rows {
                                for j in 0..g.cols {
                                    let (lon, lat) = g.node_position(i, j);
                                    let c = Coor4D([lon, lat, 0.0, 0.0]);
                                    let (va, vb) = (a.at(&c, 0.01), b.at(&c, 0.01));
                                    let same = match (va, vb) {
                                        (Some(x), Some(y)) => (0..4).all(|k| util::f64_bits_eq(x[k], y[k])),
                                        (None, None) => true,
                                        _ => false,
                                    };
                                    if !same {
                                        rec2.violate("I-faith", "little and big endian renderings of the same NTv2 grid decode differently", format!("sub-grid {} node ({i},{j})", g.name));
                                        return rec2.violation;
                                    }
                                }
                            }
                        }
                    }
                    rec2.violation
                });
                match r {
                    Ok(None) => rec.logf(|| format!("ntv2 {} subgrids be={} ok", n.subgrids.len(), n.big_endian)),
                    Ok(Some(v)) => rec.violate(&v.invariant, &v.message, v.detail),
                    Err(p) => rec.violate("I-safe", &format!("query on a well-formed grid panics: {}", p), p.clone()),
                }
            }
        }
    }
}

// ====================================================================================
// gridsim-c: crash and recovery of grid installation, through Plain
// ====================================================================================

#[derive(Serialize, Deserialize, Clone, Debug, PartialEq)]
pub enum Tail {
    Nothing,
    Zeros,
    Stale,
}

#[derive(Serialize, Deserialize, Clone, Debug, PartialEq)]
pub enum EvC {
    /// installer crashed after writing `permille`/1000 of the new version
    PartialWrite { name: u8, version: u32, permille: u16, tail: Tail },
    /// installer finished: the complete encoding of `version` is on disk
    Complete { name: u8, version: u32 },
    Flip { name: u8, permille: u16, bit: u8 },
    Delete { name: u8 },
    DirInPlace { name: u8 },
    DanglingSymlink { name: u8 },
    Op { ctx: u8, name: u8 },
    Apply { op: u16, inv: bool, tuple: u8 },
    Clear,
}

#[derive(Serialize, Deserialize, Clone, Debug, PartialEq)]
pub struct PlanC {
    pub events: Vec<EvC>,
}

pub const NAMES_C: &[&str] = &["g.geoid", "n.gsb", "h.geoid", "v.deformation"];

pub struct GridSimC {
    _scratch: Scratch,
    root: PathBuf,
}

/// Full encoding of `version` of grid `name`
pub fn encode_version(name: u8, version: u32) -> Vec<u8> {
    match NAMES_C[name as usize % NAMES_C.len()] {
        "n.gsb" => Ntv2Spec::constant(version as f32 * 0.125, version as f32 * 0.25, version % 2 == 1).encode(),
        "v.deformation" => {
            // 3 bands, geographic, constant velocities
            let mut g = GravsoftSpec::constant_geoid(version as f64);
            g.projected = false;
            g.lat_s = 40.0;
            g.lat_n = 60.0;
            g.lon_w = 0.0;
            g.lon_e = 20.0;
            g.dlat = 10.0;
            g.dlon = 10.0;
            g.bands = 3;
            g.values = vec![version as f64; 27];
            g.layout_seed = 7 + version as u64;
            g.encode()
        }
        _ => {
            let mut g = GravsoftSpec::constant_geoid(version as f64);
            g.layout_seed = 3 + version as u64;
            g.encode()
        }
    }
}

fn def_for(name: u8) -> String {
    let n = NAMES_C[name as usize % NAMES_C.len()];
    if n.ends_with(".deformation") {
        format!("deformation dt=1 grids={}", n)
    } else {
        format!("gridshift grids={}", n)
    }
}

const PROBES_C: [[f64; 4]; 5] = [
    [0.0, 0.0, 100.0, 2000.0],
    [0.3, 0.3, 50.0, 2000.0],
    [f64::NAN, 0.0, 0.0, 0.0],
    [1e9, -1e9, 0.0, 0.0],
    [3_500_000.0, 600_000.0, 5_300_000.0, 2000.0],
];

#[derive(Clone, Debug, PartialEq)]
enum DiskState {
    Absent,
    Good(u32),
    Damaged,
}

#[derive(Clone, Debug, PartialEq)]
enum CacheState {
    Empty,
    Known(u32),
    /// holds a grid decoded from a damaged file
    Unknown,
    /// op() failed on a damaged file: the decoder may have accepted (and cached) the
    /// damaged grid before the operator constructor rejected it, or not
    Maybe,
}

struct LiveOp {
    ctx: usize,
    handle: OpHandle,
    name: u8,
    /// version whose values it must keep returning; None: loaded from a damaged file
    expect: Option<u32>,
    /// fingerprint at creation (bit patterns over all probes, both directions)
    fingerprint: u64,
}

fn expected_value(name: u8, version: u32, inv: bool, probe: [f64; 4]) -> Option<[f64; 4]> {
    // only the exact predictions: geoid grids at their node (0,0)
    let n = NAMES_C[name as usize % NAMES_C.len()];
    if n.ends_with(".geoid") && probe[0] == 0.0 && probe[1] == 0.0 {
        let mut out = probe;
        if inv {
            out[2] += version as f64;
        } else {
            out[2] -= version as f64;
        }
        return Some(out);
    }
    None
}

impl GridSimC {
    fn path(&self, name: u8) -> PathBuf {
        let n = NAMES_C[name as usize % NAMES_C.len()];
        self.root.join("geodesy").join(ext_of(n)).join(n)
    }

    /// For the constant geoid grids: the shift the operator applies at the node (0, 0),
    /// which is the version number of the grid it holds
    fn observed_version(ctx: &Plain, h: OpHandle, name: u8) -> Option<f64> {
        let n = NAMES_C[name as usize % NAMES_C.len()];
        if !n.ends_with(".geoid") {
            return None;
        }
        let mut data = vec![Coor4D(PROBES_C[0])];
        match catch(|| ctx.apply(h, Fwd, &mut data)) {
            Ok(Ok(1)) => Some(PROBES_C[0][2] - data[0][2]),
            _ => None,
        }
    }

    fn fingerprint(ctx: &Plain, h: OpHandle) -> Result<u64, String> {
        catch(|| {
            let mut d = Hash128::new();
            for inv in [false, true] {
                let mut data: Vec<Coor4D> = PROBES_C.iter().map(|p| Coor4D(*p)).collect();
                let n = ctx.apply(h, if inv { Inv } else { Fwd }, &mut data).unwrap_or(usize::MAX);
                d.u64(n as u64);
                for c in &data {
                    for k in 0..4 {
                        d.u64(if c[k].is_nan() { 1 } else { c[k].to_bits() });
                    }
                }
            }
            d.low()
        })
    }
}

impl Engine for GridSimC {
    type Plan = PlanC;
    const NAME: &'static str = "gridsim-c";
    const PROPERTY: &'static str = "C15";

    fn new(_tier: Tier) -> Self {
        let scratch = Scratch::new("gridsim-c");
        let root = scratch.root.clone();
        for n in NAMES_C {
            std::fs::create_dir_all(root.join("geodesy").join(ext_of(n))).unwrap();
        }
        std::fs::create_dir_all(root.join("xdg")).unwrap();
        std::env::set_var("XDG_DATA_HOME", root.join("xdg"));
        std::env::set_var("HOME", &root);
        std::env::set_current_dir(&root).expect("chdir scratch");
        GridSimC { _scratch: scratch, root }
    }

    fn info() -> EngineInfo {
        EngineInfo {
            rule: "gridsim-c: crash-and-recovery simulation. An installer actor writes versions of four grid files (Gravsoft geoid x2, NTv2, 3-band deformation; constant node values = version number) into a scratch geodesy/ tree and can crash after any prefix (tail absent, zero-filled or stale from the previous version), flip a bit, delete the file, leave a directory or a dangling symlink in its place; two Plain contexts instantiate gridshift/deformation operators, apply them and clear the process-wide grid cache at seeded moments. A disk/cache model predicts every outcome: complete file + empty cache => op succeeds with that version's values; damaged => Err or a safely usable operator; earlier operators keep their values whatever happens later; after the installer completes and the cache is cleared the next op succeeds in every context (bounded recovery). A run is non-trivial if it has at least one fault event followed by an op; distinct = hash of the event-kind sequence.",
            real_components: &["geodesy Plain context, grid cache (GRIDS mutex via the verif_seam shim, no hook installed here), gridshift/deformation operators, grid decoders", "std::fs on a tmpfs scratch tree"],
            simulated_components: &["the installer and its crash points", "media damage", "the moments at which contexts come by"],
            assumptions: &["std::fs::read is all-or-nothing for the library, so 'crash during write' is fully represented by the prefix (+tail) left on disk when the reader comes by"],
            required_probes: &["op_on_torn_file", "op_after_recovery", "old_operator_survives_damage", "op_served_from_cache_while_disk_damaged", "damaged_file_accepted_as_grid"],
            exhaustive: false,
        }
    }

    fn runs(&self, tier: Tier) -> u64 {
        match tier {
            Tier::Quick => 800_000,
            Tier::Thorough => 10_000_000,
        }
    }

    fn generate(&self, _index: u64, seed: u64, _tier: Tier) -> PlanC {
        let mut rng = Rng::new(seed);
        let n_events = 3 + rng.below(*rng.clone().pick(&[6, 12, 25]));
        let names = 1 + rng.below(NAMES_C.len());
        // swarm: which fault kinds are enabled in this run
        let faults_on = rng.chance(0.85);
        let w_partial = if faults_on && rng.chance(0.8) { 20 } else { 0 };
        let w_flip = if faults_on && rng.chance(0.5) { 8 } else { 0 };
        let w_delete = if faults_on && rng.chance(0.5) { 5 } else { 0 };
        let w_dir = if faults_on && rng.chance(0.3) { 3 } else { 0 };
        let w_sym = if faults_on && rng.chance(0.3) { 3 } else { 0 };
        let mut events = Vec::new();
        let mut version = 1u32;
        let mut ops = 0u16;
        // usually start from an installed state
        for n in 0..names {
            if rng.chance(0.8) {
                events.push(EvC::Complete { name: n as u8, version });
                version += 1;
            }
        }
        for _ in 0..n_events {
            let name = rng.below(names) as u8;
            match rng.weighted(&[w_partial, 14, w_flip, w_delete, w_dir, w_sym, 30, 25, 10]) {
                0 => {
                    events.push(EvC::PartialWrite {
                        name,
                        version,
                        permille: *rng.pick(&[0u16, 1, 10, 100, 300, 500, 700, 900, 990, 999]) + rng.below(2) as u16,
                        tail: match rng.below(3) {
                            0 => Tail::Nothing,
                            1 => Tail::Zeros,
                            _ => Tail::Stale,
                        },
                    });
                    version += 1;
                    // faults are biased to be looked at straight away
                    if rng.chance(0.7) {
                        events.push(EvC::Op { ctx: rng.below(2) as u8, name });
                        ops += 1;
                    }
                }
                1 => {
                    events.push(EvC::Complete { name, version });
                    version += 1;
                    if rng.chance(0.5) {
                        events.push(EvC::Clear);
                        events.push(EvC::Op { ctx: rng.below(2) as u8, name });
                        ops += 1;
                    }
                }
                2 => {
                    events.push(EvC::Flip { name, permille: rng.below(1000) as u16, bit: rng.below(8) as u8 });
                    if rng.chance(0.6) {
                        events.push(EvC::Clear);
                        events.push(EvC::Op { ctx: rng.below(2) as u8, name });
                        ops += 1;
                    }
                }
                3 => events.push(EvC::Delete { name }),
                4 => events.push(EvC::DirInPlace { name }),
                5 => events.push(EvC::DanglingSymlink { name }),
                6 => {
                    events.push(EvC::Op { ctx: rng.below(2) as u8, name });
                    ops += 1;
                }
                7 => {
                    if ops > 0 {
                        events.push(EvC::Apply { op: rng.below(ops as usize) as u16, inv: rng.chance(0.4), tuple: rng.below(PROBES_C.len()) as u8 });
                    }
                }
                _ => events.push(EvC::Clear),
            }
        }
        PlanC { events }
    }

    fn plan_size(&self, plan: &PlanC) -> usize {
        plan.events.len()
    }

    fn shrink_candidates(&self, plan: &PlanC) -> Vec<PlanC> {
        let mut out = Vec::new();
        let n = plan.events.len();
        let mut width = n / 2;
        while width >= 1 {
            let mut start = 0;
            while start < n {
                let mut p = plan.clone();
                let end = (start + width).min(n);
                p.events.drain(start..end);
                // Apply events index ops by ordinal: renumbering is not attempted, the
                // executor ignores Apply events pointing past the live operators
                if !p.events.is_empty() {
                    out.push(p);
                }
                start += width;
            }
            width /= 2;
        }
        out
    }

    fn execute(&mut self, plan: &PlanC, rec: &mut Recorder) {
        // pristine state: empty tree, empty and unpoisoned cache
        for k in 0..NAMES_C.len() {
            util::remove_any(&self.path(k as u8));
        }
        Plain::verif_reset_grids();
        let mut ctxs = [Plain::new(), Plain::new()];
        let mut disk: Vec<DiskState> = vec![DiskState::Absent; NAMES_C.len()];
        let mut disk_bytes: Vec<Vec<u8>> = vec![Vec::new(); NAMES_C.len()];
        let mut cache: Vec<CacheState> = vec![CacheState::Empty; NAMES_C.len()];
        let mut ops: Vec<LiveOp> = Vec::new();
        let mut sig = Hash128::new();
        let mut fault_seen = false;
        let mut nontrivial = false;
        let mut recovered_pending: Vec<bool> = vec![false; NAMES_C.len()];
        // versions some operator of this run has loaded; whether one holds an accepted damaged grid
        let mut ever_loaded: Vec<std::collections::BTreeSet<u32>> = vec![Default::default(); NAMES_C.len()];
        let mut ever_unknown: Vec<bool> = vec![false; NAMES_C.len()];

        for (k, ev) in plan.events.iter().enumerate() {
            if rec.failed() {
                break;
            }
            rec.event();
            match ev {
                EvC::PartialWrite { name, version, permille, tail } => {
                    sig.str("W");
                    let i = *name as usize % NAMES_C.len();
                    let full = encode_version(*name, *version);
                    let cut = (full.len() as u64 * (*permille).min(1000) as u64 / 1000) as usize;
                    let mut bytes = full[..cut].to_vec();
                    match tail {
                        Tail::Nothing => {}
                        Tail::Zeros => bytes.resize(full.len(), 0),
                        Tail::Stale => {
                            if disk_bytes[i].len() > cut {
                                bytes.extend_from_slice(&disk_bytes[i][cut..]);
                            }
                        }
                    }
                    let p = self.path(*name);
                    util::remove_any(&p);
                    let _ = std::fs::write(&p, &bytes);
                    disk[i] = if bytes == full { DiskState::Good(*version) } else { DiskState::Damaged };
                    // a stale tail of the same length may reproduce an older complete version
                    if let DiskState::Damaged = disk[i] {
                        for v in 1..=*version {
                            if bytes == encode_version(*name, v) {
                                disk[i] = DiskState::Good(v);
                            }
                        }
                    }
                    disk_bytes[i] = bytes;
                    rec.fault(match tail {
                        Tail::Nothing => "crash_during_install_prefix_only",
                        Tail::Zeros => "crash_during_install_zero_tail",
                        Tail::Stale => "crash_during_install_stale_tail",
                    });
                    fault_seen = true;
                    recovered_pending[i] = false;
                    rec.logf(|| format!("e{} partial {} v{} {}‰ {:?} -> {:?}", k, NAMES_C[i], version, permille, tail, disk[i]));
                }
                EvC::Complete { name, version } => {
                    sig.str("K");
                    let i = *name as usize % NAMES_C.len();
                    let full = encode_version(*name, *version);
                    let p = self.path(*name);
                    util::remove_any(&p);
                    let _ = std::fs::write(&p, &full);
                    if disk[i] == DiskState::Damaged || disk[i] == DiskState::Absent {
                        recovered_pending[i] = fault_seen;
                    }
                    disk[i] = DiskState::Good(*version);
                    disk_bytes[i] = full;
                    rec.logf(|| format!("e{} complete {} v{}", k, NAMES_C[i], version));
                }
                EvC::Flip { name, permille, bit } => {
                    sig.str("F");
                    let i = *name as usize % NAMES_C.len();
                    if disk_bytes[i].is_empty() || disk[i] == DiskState::Absent {
                        continue;
                    }
                    let at = (disk_bytes[i].len() as u64 * (*permille).min(999) as u64 / 1000) as usize;
                    disk_bytes[i][at] ^= 1 << (bit % 8);
                    let p = self.path(*name);
                    util::remove_any(&p);
                    let _ = std::fs::write(&p, &disk_bytes[i]);
                    disk[i] = DiskState::Damaged;
                    rec.fault("bit_flip_on_disk");
                    fault_seen = true;
                    rec.logf(|| format!("e{} flip {} byte {} bit {}", k, NAMES_C[i], at, bit));
                }
                EvC::Delete { name } => {
                    sig.str("D");
                    let i = *name as usize % NAMES_C.len();
                    util::remove_any(&self.path(*name));
                    disk[i] = DiskState::Absent;
                    disk_bytes[i].clear();
                    rec.fault("file_deleted");
                    fault_seen = true;
                    rec.logf(|| format!("e{} delete {}", k, NAMES_C[i]));
                }
                EvC::DirInPlace { name } => {
                    sig.str("I");
                    let i = *name as usize % NAMES_C.len();
                    let p = self.path(*name);
                    util::remove_any(&p);
                    let _ = std::fs::create_dir_all(&p);
                    disk[i] = DiskState::Absent;
                    disk_bytes[i].clear();
                    rec.fault("directory_in_place_of_file");
                    fault_seen = true;
                    rec.logf(|| format!("e{} dir-in-place {}", k, NAMES_C[i]));
                }
                EvC::DanglingSymlink { name } => {
                    sig.str("S");
                    let i = *name as usize % NAMES_C.len();
                    let p = self.path(*name);
                    util::remove_any(&p);
                    let _ = std::os::unix::fs::symlink(self.root.join("nowhere"), &p);
                    disk[i] = DiskState::Absent;
                    disk_bytes[i].clear();
                    rec.fault("dangling_symlink");
                    fault_seen = true;
                    rec.logf(|| format!("e{} dangling-symlink {}", k, NAMES_C[i]));
                }
                EvC::Clear => {
                    sig.str("C");
                    if let Err(p) = catch(Plain::clear_grids) {
                        rec.violate("I-safe", &format!("clear_grids panics: {}", p), format!("event {}: {}", k, p));
                        break;
                    }
                    for c in cache.iter_mut() {
                        *c = CacheState::Empty;
                    }
                    rec.log("clear");
                }
                EvC::Op { ctx, name } => {
                    sig.str("O");
                    let i = *name as usize % NAMES_C.len();
                    let c = *ctx as usize % 2;
                    let def = def_for(*name);
                    if fault_seen {
                        nontrivial = true;
                    }
                    let made = catch(|| ctxs[c].op(&def));
                    let made = match made {
                        Err(p) => {
                            rec.violate(
                                "I-safe",
                                &format!("instantiating a grid operator panics: {}", p),
                                format!("event {}: op('{}') with disk {:?} cache {:?}: {}", k, def, disk[i], cache[i], p),
                            );
                            break;
                        }
                        Ok(r) => r,
                    };
                    // What the model demands. Which version a *new* operator gets is left open
                    // (a cache may keep sharing whatever some live operator still holds, or drop
                    // what it likes); what is demanded: a complete file on disk must give an
                    // operator, a file that is absent and was never loaded must give an error,
                    // and an operator's values are those of *some* version the file really had
                    // (or, where a damaged file was accepted earlier, of that safely usable grid).
                    let loaded_before = !ever_loaded[i].is_empty() || ever_unknown[i];
                    // (a damaged grid that was accepted earlier may still be cached or shared, and
                    // an operator needing another band count then fails on it: §15.4)
                    let damaged_grid_around = ever_unknown[i] || matches!(cache[i], CacheState::Unknown | CacheState::Maybe);
                    let must_ok: Option<bool> = match &disk[i] {
                        DiskState::Good(_) => {
                            if damaged_grid_around {
                                None
                            } else {
                                Some(true)
                            }
                        }
                        DiskState::Absent => {
                            if loaded_before {
                                None
                            } else {
                                Some(false)
                            }
                        }
                        DiskState::Damaged => None,
                    };
                    // the plain "cache, else disk" reading, used as the first guess
                    let canonical: Option<u32> = match (&cache[i], &disk[i]) {
                        (CacheState::Known(v), _) => Some(*v),
                        (CacheState::Empty, DiskState::Good(v)) => Some(*v),
                        _ => None,
                    };
                    let unknown_allowed = ever_unknown[i] || disk[i] == DiskState::Damaged || matches!(cache[i], CacheState::Unknown | CacheState::Maybe);
                    let mut expect: Option<u32> = canonical;
                    if cache[i] != CacheState::Empty && disk[i] != DiskState::Good(match cache[i] { CacheState::Known(v) => v, _ => u32::MAX }) {
                        rec.probe("op_served_from_cache_while_disk_damaged");
                    }
                    if cache[i] == CacheState::Empty && disk[i] == DiskState::Damaged {
                        rec.probe("op_on_torn_file");
                    }
                    match (made, must_ok) {
                        (Ok(h), Some(true)) | (Ok(h), None) => {
                            // which version did it get? (observable exactly for the geoid grids)
                            let mut admissible: Vec<u32> = ever_loaded[i].iter().copied().collect();
                            if let DiskState::Good(v) = disk[i] {
                                if !admissible.contains(&v) {
                                    admissible.push(v);
                                }
                            }
                            let observed = Self::observed_version(&ctxs[c], h, *name);
                            match observed {
                                Some(z) => {
                                    match admissible.iter().find(|v| ((**v as f64) - z).abs() <= 1e-9) {
                                        Some(v) => expect = Some(*v),
                                        None if unknown_allowed => expect = None,
                                        None => {
                                            rec.violate(
                                                "I-faith",
                                                "operator does not reproduce the values of the grid version it loaded",
                                                format!("event {}: op('{}') shifts by {} although its file only ever held versions {:?} (disk {:?}, cache {:?})", k, def, z, admissible, disk[i], cache[i]),
                                            );
                                            break;
                                        }
                                    }
                                }
                                // not a grid whose values the model can read back exactly
                                None => {
                                    if must_ok != Some(true) || unknown_allowed {
                                        expect = None;
                                    }
                                }
                            }
                            if expect != canonical {
                                rec.probe("new_operator_got_another_admissible_version");
                            }
                            match expect {
                                Some(v) => {
                                    cache[i] = CacheState::Known(v);
                                    ever_loaded[i].insert(v);
                                    if recovered_pending[i] {
                                        rec.probe("op_after_recovery");
                                        recovered_pending[i] = false;
                                    }
                                }
                                None => {
                                    rec.probe("damaged_file_accepted_as_grid");
                                    ever_unknown[i] = true;
                                    if cache[i] == CacheState::Empty || matches!(cache[i], CacheState::Known(_)) {
                                        cache[i] = CacheState::Unknown;
                                    }
                                }
                            }
                            let fp = match Self::fingerprint(&ctxs[c], h) {
                                Ok(fp) => fp,
                                Err(p) => {
                                    rec.violate("I-safe", &format!("applying a grid operator panics: {}", p), format!("event {}: operator '{}' created with disk {:?}: {}", k, def, disk[i], p));
                                    break;
                                }
                            };
                            ops.push(LiveOp { ctx: c, handle: h, name: *name, expect, fingerprint: fp });
                            rec.logf(|| format!("e{} op ctx{} {} -> ok expect={:?} fp={:016x}", k, c, NAMES_C[i], expect, fp));
                        }
                        (Err(e), Some(false)) | (Err(e), None) => {
                            if must_ok.is_none() && cache[i] == CacheState::Empty {
                                cache[i] = CacheState::Maybe;
                            }
                            rec.logf(|| format!("e{} op ctx{} {} -> err {}", k, c, NAMES_C[i], util::normalize_message(&e.to_string())));
                        }
                        (Ok(_), Some(false)) => {
                            rec.violate("I-faith", "operator instantiates although its grid file is absent and was never loaded", format!("event {}: '{}'", k, def));
                            break;
                        }
                        (Err(e), Some(true)) => {
                            let inv = if recovered_pending[i] { "I-recover" } else { "I-faith" };
                            rec.violate(
                                inv,
                                "operator fails although a complete well-formed grid file is on disk",
                                format!("event {}: op('{}') -> {} with disk {:?} cache {:?}", k, def, e, disk[i], cache[i]),
                            );
                            break;
                        }
                    }
                }
                EvC::Apply { op, inv, tuple } => {
                    sig.str("A");
                    let Some(o) = ops.get(*op as usize) else { continue };
                    let probe = PROBES_C[*tuple as usize % PROBES_C.len()];
                    let mut data = vec![Coor4D(probe)];
                    let r = catch(|| ctxs[o.ctx].apply(o.handle, if *inv { Inv } else { Fwd }, &mut data));
                    match r {
                        Err(p) => {
                            rec.violate("I-safe", &format!("applying a grid operator panics: {}", p), format!("event {}: {}", k, p));
                            break;
                        }
                        Ok(Err(e)) => {
                            rec.violate("I-keep", "a live operator handle stopped being valid", format!("event {}: {}", k, e));
                            break;
                        }
                        Ok(Ok(_)) => {}
                    }
                    if let Some(v) = o.expect {
                        if let Some(want) = expected_value(o.name, v, *inv, probe) {
                            let got = data[0].0;
                            if !(0..4).all(|d| (got[d] - want[d]).abs() <= 1e-9 || (got[d].is_nan() && want[d].is_nan())) {
                                rec.violate(
                                    "I-faith",
                                    "operator does not reproduce the values of the grid version it loaded",
                                    format!("event {}: {} v{} inv={} probe {:?}: got {:?} want {:?}", k, NAMES_C[o.name as usize % NAMES_C.len()], v, inv, probe, got, want),
                                );
                                break;
                            }
                        }
                    }
                    rec.logf(|| format!("e{} apply op{} -> {:?}", k, op, data[0].0.map(|v| if v.is_nan() { 0 } else { v.to_bits() })));
                }
            }
            // I-keep: every operator ever created still behaves as at creation
            for (n, o) in ops.iter().enumerate() {
                match Self::fingerprint(&ctxs[o.ctx], o.handle) {
                    Ok(fp) if fp == o.fingerprint => {}
                    Ok(_) => {
                        rec.violate("I-keep", "an operator created earlier changed behaviour after a later disk/cache event", format!("after event {} ({:?}): operator #{} on {}", k, ev, n, NAMES_C[o.name as usize % NAMES_C.len()]));
                        break;
                    }
                    Err(p) => {
                        rec.violate("I-safe", &format!("applying a grid operator panics: {}", p), format!("after event {}: operator #{}: {}", k, n, p));
                        break;
                    }
                }
            }
            if !ops.is_empty() && matches!(ev, EvC::PartialWrite { .. } | EvC::Flip { .. } | EvC::Delete { .. } | EvC::DirInPlace { .. } | EvC::DanglingSymlink { .. } | EvC::Clear) {
                rec.probe("old_operator_survives_damage");
            }
        }
        if nontrivial {
            rec.sig(sig.low());
        }
        rec.logf(|| format!("end {}", sig.hex()));
    }
}
