//! C20: the real `kp` executable inside a simulator-owned environment (argv, cwd,
//! env, files, stdin, reader faults through the H2 seam) against an in-process,
//! one-tuple-at-a-time model of what it must print.

use crate::engine::{Engine, EngineInfo, Recorder, Tier};
use crate::rng::Rng;
use crate::util::{self, catch, Hash128, Scratch};
use geodesy::prelude::*;
#[allow(unused_imports)]
use geodesy::prelude::angular;
use serde::{Deserialize, Serialize};
use std::io::Read;
use std::path::PathBuf;
use std::process::{Command, Stdio};

const BATCH: usize = 25000;

#[derive(Serialize, Deserialize, Clone, Debug, PartialEq)]
pub enum PartKind {
    File,
    Stdin,
    /// file argument that does not exist
    Absent,
    /// a directory in place of the file: open succeeds, read fails
    Directory,
    DanglingSymlink,
    /// a named pipe fed by the harness: readable, but not a regular file
    Fifo,
    /// a symbolic link to the regular file holding the lines
    SymlinkToFile,
}

/// One input stream: the next `lines` logical lines go here
#[derive(Serialize, Deserialize, Clone, Debug, PartialEq)]
pub struct Part {
    pub kind: PartKind,
    pub lines: usize,
    /// reader seam script: buffer capacity, cyclic read sizes (0 = EINTR), faults
    pub cap: usize,
    pub steps: Vec<u32>,
    pub eio_at: Option<u64>,
    pub eof_at: Option<u64>,
    /// byte offset at which one byte is replaced by 0xFF (invalid UTF-8)
    pub bad_utf8_at: Option<u64>,
}

#[derive(Serialize, Deserialize, Clone, Debug, PartialEq)]
pub struct PlanK {
    pub op: String,
    pub inv: bool,
    pub roundtrip: bool,
    pub height: Option<String>,
    pub time: Option<String>,
    pub decimals: Option<u8>,
    pub dimension: Option<u8>,
    pub crlf: bool,
    pub final_newline: bool,
    pub lines: Vec<String>,
    pub parts: Vec<Part>,
    /// the geodesy/ resource tree sits in the user data dir ($XDG_DATA_HOME) instead of ./
    #[serde(default)]
    pub tree_in_user_dir: bool,
    /// run kp under this limit of open file descriptors (kp reads its inputs one after
    /// the other, so the number of file arguments must not matter)
    #[serde(default)]
    pub nofile_limit: Option<u16>,
}

pub struct KpSim {
    _scratch: Scratch,
    root: PathBuf,
    kp: PathBuf,
    run_no: u64,
}

const VALID_OPS: &[&str] = &[
    "addone",
    "noop",
    "utm zone=32",
    "geo:in | utm zone=32",
    "geo:in | utm zone=32 | neu:out",
    "helmert x=1 dx=1 t_epoch=2000",
    "helmert x=-87 y=-96 z=-120",
    "cart",
    "geo:in | cart | helmert x=-87 y=-96 z=-120 | cart inv | geo:out",
    "gridshift grids=test.datum",
    "geo:in | gridshift grids=test.geoid | geo:out",
    "stupid:way",
    "stupid:addthree_one_by_one",
    "proj=utm zone=32",
    "+proj=utm +zone=32 +ellps=intl",
    "merc lat_ts=56",
    "unitconvert xy_in=us-ft xy_out=m",
    "axisswap order=2,1",
    "adapt from=neuf_deg to=enuf_gon",
    "geo:in | curvature mean",
    "geo:in | latitude geocentric | geo:out",
    "geo:in | tmerc lat_0=49 lon_0=-2 k_0=0.9996012717 x_0=400000 y_0=-100000 ellps=airy",
    "dms",
    "geo:in | helmert x=1 dx=1 t_epoch=2000 | geo:out",
    "geo:in | gridshift grids=test_subset.datum,test.datum | geo:out",
    "geo:in | gridshift grids=test_subset.datum, test.datum, @null | geo:out",
];

const INVALID_OPS: &[&str] = &[
    "nosuchoperator",
    "utm",
    "helmert rx=1 convention=bad",
    "stupid:bad",
    "addone | nosuch:macro",
    "gridshift grids=missing.grid",
    "unitconvert xy_in=furlongs",
];

fn gen_number(rng: &mut Rng, column: usize, geographic: bool) -> String {
    // column 0/1 plane or geographic, 2 height, 3 time
    // signs and zero degrees in sexagesimal notation, now and then
    if column < 2 && rng.chance(0.06) {
        return (*rng.pick(&["-0:30:36", "-0:15", "0:30:36S", "-12:30:00", "-0", "0:0:1w", "-0:0:0.5", "+1:30", "-1:30:36N", "1:2:3:4", "12:", ":30", "1e2", "-.5"])).to_string();
    }
    match column {
        0 | 1 => {
            if geographic {
                let deg = if column == 0 { rng.uniform(53.0, 59.0) } else { rng.uniform(7.0, 17.0) };
                match rng.below(6) {
                    0 => format!("{}", deg.round()),
                    1 => {
                        let d = deg.trunc();
                        let m = ((deg - d) * 60.0).trunc();
                        let s = ((deg - d) * 60.0 - m) * 60.0;
                        let letter = if column == 0 { *rng.pick(&["N", "n", "S", ""]) } else { *rng.pick(&["E", "e", "W", "w", ""]) };
                        if rng.chance(0.5) {
                            format!("{}:{}:{:.3}{}", d, m, s, letter)
                        } else {
                            format!("{}:{:.4}{}", d, m, letter)
                        }
                    }
                    2 => format!("-{:.5}", deg),
                    _ => format!("{:.8}", deg),
                }
            } else {
                let v = if column == 0 { rng.uniform(300_000.0, 900_000.0) } else { rng.uniform(5_800_000.0, 6_500_000.0) };
                match rng.below(4) {
                    0 => format!("{}", v.round()),
                    1 => format!("{:e}", v),
                    _ => format!("{:.4}", v),
                }
            }
        }
        2 => format!("{:.3}", rng.uniform(-10.0, 500.0)),
        _ => (*rng.pick(&["2000", "2001", "2002.5", "2015", "1994.25", "NaN"])).to_string(),
    }
}

fn gen_line(rng: &mut Rng, geographic: bool, max_cols: usize) -> String {
    // a very long line now and then: thousands of blanks around the columns, or a
    // trailing comment of several kilobytes (longer than any I/O buffer in the way)
    if rng.chance(0.004) {
        let pad = " ".repeat(*rng.pick(&[300usize, 5000, 9000, 70_000]));
        return match rng.below(3) {
            0 => format!("{}55{}12{}", pad, pad, pad),
            1 => format!("55 12 # {}", "x".repeat(pad.len())),
            _ => format!("#{}", pad),
        };
    }
    match rng.weighted(&[70, 6, 4, 4, 4, 3, 9]) {
        1 => String::new(),
        2 => (*rng.pick(&["   ", "\t", " \t "])).to_string(),
        3 => format!("# {}", rng.pick(&["a full line comment", "55 12", "#", "x"])),
        4 => format!("   #indented comment {}", rng.below(9)),
        5 => {
            // odd tokens: not a number, glued hash, too many columns
            match rng.below(4) {
                0 => "abc def".to_string(),
                1 => "55#5 12".to_string(),
                2 => "1 2 3 4 5".to_string(),
                _ => "1 2 3 4 5 6 7".to_string(),
            }
        }
        k => {
            let cols = 1 + rng.below(max_cols.clamp(1, 4));
            let mut toks: Vec<String> = (0..cols).map(|c| gen_number(rng, c, geographic)).collect();
            if k == 6 {
                toks.push(format!("# trailing {}", rng.below(100)));
            }
            // columns are separated by white space: blanks and tabs, but now and then
            // also a vertical tab, form feed, no-break space, em space or ideographic space
            let sep = if rng.chance(0.06) { *rng.pick(&["\u{b}", "\u{c}", "\u{a0}", "\u{2003}", "\u{3000}", "\u{85}"]) } else { *rng.pick(&[" ", "  ", "\t", " \t"]) };
            let mut line = toks.join(sep);
            if rng.chance(0.15) {
                line = format!("  {}  ", line);
            }
            line
        }
    }
}

/// A coordinate element as documented: a real number, or a sexagesimal D:M or D:M:S,
/// optionally followed by a hemisphere letter (S and W negative); a leading minus
/// sign makes the whole value negative (also for zero degrees); anything else is NaN.
/// Own code on purpose: the model must not inherit a parsing slip of the library.
fn parse_number(token: &str) -> f64 {
    let mut t = token.trim();
    if t.is_empty() || t == "NaN" {
        return f64::NAN;
    }
    let mut hemisphere = 1.0;
    if let Some(last) = t.chars().last() {
        if "nNeE".contains(last) {
            t = &t[..t.len() - 1];
        } else if "sSwW".contains(last) {
            hemisphere = -1.0;
            t = &t[..t.len() - 1];
        }
    }
    let parts: Vec<&str> = t.split(':').collect();
    if parts.len() > 3 {
        return f64::NAN;
    }
    let mut dms = [0.0f64; 3];
    for (i, p) in parts.iter().enumerate() {
        match p.parse::<f64>() {
            Ok(v) => dms[i] = v,
            Err(_) => return f64::NAN,
        }
    }
    if dms[0].is_nan() {
        return f64::NAN;
    }
    let negative = parts[0].starts_with('-');
    let magnitude = dms[0].abs() + (dms[1] + dms[2] / 60.0) / 60.0;
    let sign = if negative { -hemisphere } else { hemisphere };
    sign * magnitude
}

/// Coordinate line as kp documents it: whitespace separated tokens, a token starting
/// with '#' starts a comment, nothing left => not a coordinate line
fn tokens_of(line: &str) -> Vec<&str> {
    let mut toks: Vec<&str> = line.split_whitespace().collect();
    if let Some(n) = toks.iter().position(|t| t.starts_with('#')) {
        toks.truncate(n);
    }
    toks
}

struct Expected {
    /// number of tokens on the input line
    own_dims: usize,
    /// result for that line's tuple (after fwd / inv / roundtrip), None if the model
    /// cannot say (library panicked, roundtrip of a failing tuple, over-long line)
    result: Option<[f64; 4]>,
}

impl Engine for KpSim {
    type Plan = PlanK;
    const NAME: &'static str = "kpsim";
    const PROPERTY: &'static str = "C20";

    fn new(_tier: Tier) -> Self {
        let scratch = Scratch::new("kpsim");
        let root = scratch.root.clone();
        let repo = PathBuf::from(std::env::var("VERIF_REPO").unwrap_or_else(|_| "/repo".to_string()));
        util::copy_tree(&repo.join("geodesy"), &root.join("tree").join("geodesy")).expect("copy geodesy tree");
        std::fs::create_dir_all(root.join("xdg")).unwrap();
        std::env::set_var("XDG_DATA_HOME", root.join("xdg"));
        std::env::set_var("HOME", &root);
        let kp = PathBuf::from(std::env::var("VERIF_KP").unwrap_or_else(|_| "/verif/target/kp/debug/kp".to_string()));
        KpSim { _scratch: scratch, root, kp, run_no: 0 }
    }

    fn info() -> EngineInfo {
        EngineInfo {
            rule: "kpsim: one run = one execution of the real kp binary (built from the working tree with the reader seam) in a fresh scratch cwd with its own geodesy/ tree and env. The Plan fixes the operation (valid catalogue incl. macros, grids, PROJ syntax, dynamic helmert; or an invalid one), any subset of --inv/-z/-t/-d/-D/--roundtrip, the logical input (1-4 columns, sexagesimal with hemisphere letters, non-numbers, blank/whitespace-only lines, full-line/indented/trailing comments, LF or CRLF, missing final newline, over-long lines; 0..~50k lines with a seeded fraction at 24999/25000/25001/50000/50001), how it is spread over 1-4 file arguments and/or stdin (incl. empty files), and per stream the reader script (buffer capacity, short reads down to 1 byte, EINTR bursts, hard EIO or premature EOF at a byte offset, an invalid UTF-8 byte) or a file-level fault (absent, directory, dangling symlink). Oracle: in-process line model applying the operation one tuple at a time through a Plain context in the same cwd. Non-trivial = at least one coordinate line; distinct = hash of (operation, option set, input-shape class, spreading class, fault kinds, outcome class).",
            real_components: &["the kp executable (clap parsing, line reader, batching, transform, output)", "geodesy library inside kp and inside the model", "std::fs / process spawning on tmpfs"],
            simulated_components: &["argv, cwd, env", "input files and stdin contents", "read boundaries, EINTR, EIO, premature EOF inside kp (H2 reader seam)", "file-level faults (absent, directory, dangling symlink, invalid UTF-8)"],
            assumptions: &[
                "kp is single threaded, so (Plan, binary) -> (stdout, stderr class, exit status) is a function",
                "without -d/-D the number of decimals and columns is kp's own estimate: the model then accepts any number of decimals (the same for all columns of a line) and one to four columns",
                "whether invalid UTF-8 in the input is an error or is decoded leniently is left open; lines printed for the input before it are asserted either way",
                "values printed for lines with more than four columns are not asserted (one output line, no crash)",
                "with --roundtrip and tuples that fail in one direction kp may end with an error (count mismatch) instead of printing; the exit status is then not asserted, printed lines always are",
            ],
            required_probes: &["batch_boundary_exact", "batch_boundary_plus_one", "empty_input", "multi_file", "stdin_used", "eintr", "short_reads", "hard_read_error", "premature_eof", "file_absent", "file_is_directory", "invalid_utf8", "invalid_operation", "roundtrip", "inverse", "sexagesimal", "overlong_line", "empty_file_argument", "resources_from_user_data_dir", "fifo_argument", "symlink_to_file_argument", "low_open_file_limit"],
            exhaustive: false,
        }
    }

    fn runs(&self, tier: Tier) -> u64 {
        match tier {
            Tier::Quick => 90_000,
            Tier::Thorough => 2_500_000,
        }
    }

    fn generate(&self, _index: u64, seed: u64, _tier: Tier) -> PlanK {
        let mut rng = Rng::new(seed);
        let invalid = rng.chance(0.06);
        let op = if invalid { *rng.pick(INVALID_OPS) } else { *rng.pick(VALID_OPS) };
        let geographic = op.starts_with("geo:in") || op.contains("merc") || op.starts_with("adapt");
        // number of logical lines
        let n = match rng.weighted(&[6, 32, 44, 16, 2]) {
            0 => 0,
            1 => 1 + rng.below(4),
            2 => 1 + rng.below(40),
            3 => 1 + rng.below(600),
            _ => *rng.pick(&[BATCH - 1, BATCH, BATCH + 1, BATCH, 2 * BATCH, 2 * BATCH + 1, BATCH + 7]),
        };
        let big = n >= 1000;
        let max_cols = 1 + rng.below(4);
        let mut lines: Vec<String> = Vec::with_capacity(n);
        if big {
            // around the batch boundary: mostly plain coordinate lines (cheap to generate),
            // a few specials; the number of *coordinate* lines is what matters
            let specials = rng.chance(0.3);
            // a long run of lines that are not coordinates (a header of comments, a gap of
            // blank lines) somewhere in a large input: at least one internal batch worth
            if rng.chance(0.2) {
                let run = *rng.pick(&[BATCH, BATCH + 1, 2 * BATCH - 1, 2 * BATCH + 3]);
                let at_start = rng.chance(0.5);
                let filler = |i: usize| if i % 7 == 0 { String::new() } else { format!("# header line {}", i) };
                if at_start {
                    for i in 0..run {
                        lines.push(filler(i));
                    }
                } else {
                    for i in 0..n / 2 {
                        lines.push(format!("{} {}", 55 + (i % 3), 12 + (i % 5)));
                    }
                    for i in 0..run {
                        lines.push(filler(i));
                    }
                }
            }
            let n = n + lines.len();
            while lines.len() < n {
                if specials && rng.chance(0.001) {
                    lines.push(gen_line(&mut rng, geographic, max_cols));
                } else {
                    let i = lines.len();
                    lines.push(format!("{} {}", 55 + (i % 3), 12 + (i % 5)));
                }
            }
        } else {
            for _ in 0..n {
                lines.push(gen_line(&mut rng, geographic, max_cols));
            }
        }
        let n = lines.len();
        // spreading
        let nofile_limit = if !big && rng.chance(0.02) { Some(20u16) } else { None };
        let n_parts = if nofile_limit.is_some() {
            30 + rng.below(40)
        } else if rng.chance(0.5) {
            1
        } else {
            1 + rng.below(4)
        };
        let mut cuts: Vec<usize> = (0..n_parts - 1).map(|_| rng.below(n + 1)).collect();
        cuts.sort();
        let mut parts = Vec::new();
        let mut prev = 0;
        let stdin_slot = if rng.chance(0.35) { Some(rng.below(n_parts)) } else { None };
        let faults_on = rng.chance(0.45);
        for k in 0..n_parts {
            let end = if k + 1 == n_parts { n } else { cuts[k] };
            let count = end - prev;
            prev = end;
            let mut part = Part {
                kind: if stdin_slot == Some(k) {
                    PartKind::Stdin
                } else if rng.chance(0.04) {
                    PartKind::Fifo
                } else if rng.chance(0.04) {
                    PartKind::SymlinkToFile
                } else {
                    PartKind::File
                },
                lines: count,
                cap: 8192,
                steps: Vec::new(),
                eio_at: None,
                eof_at: None,
                bad_utf8_at: None,
            };
            if faults_on {
                // approximate byte length of this part, for placing faults inside it
                let approx: u64 = (count as u64) * if big { 6 } else { 20 } + 1;
                if rng.chance(0.6) {
                    part.cap = *rng.pick(&[1usize, 2, 3, 7, 16, 64, 4096, 8192]);
                    let k = 1 + rng.below(6);
                    for _ in 0..k {
                        part.steps.push(if rng.chance(0.25) { 0 } else { *rng.pick(&[1u32, 1, 2, 3, 5, 17, 100, 4096]) });
                    }
                    if part.steps.iter().all(|s| *s == 0) {
                        part.steps.push(1);
                    }
                    if big {
                        // one byte at a time over 150 kB is needlessly slow
                        part.cap = part.cap.max(64);
                        part.steps.retain(|s| *s == 0 || *s >= 17);
                        if part.steps.iter().all(|s| *s == 0) {
                            part.steps.push(100);
                        }
                    }
                }
                match rng.weighted(&[70, 8, 8, 5, 3, 3, 3]) {
                    1 => part.eio_at = Some(rng.below(approx as usize + 1) as u64),
                    2 => part.eof_at = Some(rng.below(approx as usize + 1) as u64),
                    3 => part.bad_utf8_at = Some(rng.below(approx as usize) as u64),
                    4 if part.kind == PartKind::File => part.kind = PartKind::Absent,
                    5 if part.kind == PartKind::File => part.kind = PartKind::Directory,
                    6 if part.kind == PartKind::File => part.kind = PartKind::DanglingSymlink,
                    _ => {}
                }
                // faults biased to sit right at a batch boundary
                if big && rng.chance(0.3) && part.eio_at.is_some() {
                    part.eio_at = Some((BATCH as u64) * 6 + rng.below(12) as u64);
                }
            }
            parts.push(part);
        }
        let pick_num = |rng: &mut Rng, pool: &[&str]| -> Option<String> {
            if rng.chance(0.3) {
                Some((*rng.pick(pool)).to_string())
            } else {
                None
            }
        };
        PlanK {
            op: op.to_string(),
            inv: rng.chance(0.25),
            roundtrip: rng.chance(0.2),
            height: pick_num(&mut rng, &["0", "100", "-5.5", "1e3"]),
            time: pick_num(&mut rng, &["2000", "2001", "2015.5", "NaN"]),
            decimals: if rng.chance(0.6) { Some(rng.below(16) as u8) } else { None },
            dimension: if rng.chance(0.5) { Some(1 + rng.below(4) as u8) } else { None },
            crlf: rng.chance(0.2),
            final_newline: !rng.chance(0.2),
            lines,
            parts,
            tree_in_user_dir: rng.chance(0.25),
            nofile_limit,
        }
    }

    fn plan_size(&self, plan: &PlanK) -> usize {
        plan.lines.len() + plan.parts.len()
    }

    fn sample(&self, plan: &PlanK) -> serde_json::Value {
        serde_json::json!({
            "operation": plan.op, "inv": plan.inv, "roundtrip": plan.roundtrip, "height": plan.height, "time": plan.time,
            "decimals": plan.decimals, "dimension": plan.dimension, "crlf": plan.crlf, "final_newline": plan.final_newline,
            "lines": plan.lines.len(), "first_lines": plan.lines.iter().take(6).collect::<Vec<_>>(),
            "parts": plan.parts.iter().map(|p| format!("{:?} lines={} cap={} steps={:?} eio={:?} eof={:?} badutf8={:?}", p.kind, p.lines, p.cap, p.steps, p.eio_at, p.eof_at, p.bad_utf8_at)).collect::<Vec<_>>(),
        })
    }

    fn shrink_candidates(&self, plan: &PlanK) -> Vec<PlanK> {
        let mut out = Vec::new();
        let renorm = |p: &mut PlanK| {
            // keep the spreading consistent with the number of lines
            let mut left = p.lines.len();
            for part in p.parts.iter_mut() {
                part.lines = part.lines.min(left);
                left -= part.lines;
            }
            if let Some(last) = p.parts.last_mut() {
                last.lines += left;
            }
        };
        // fewer lines: halves, quarters, ... (from the end first)
        let n = plan.lines.len();
        let mut w = n / 2;
        while w >= 1 {
            let mut s = 0;
            while s < n {
                let mut p = plan.clone();
                p.lines.drain(s..(s + w).min(n));
                renorm(&mut p);
                out.push(p);
                s += w;
            }
            if out.len() > 60 {
                break;
            }
            w /= 2;
        }
        // fewer parts
        if plan.parts.len() > 1 {
            for k in 0..plan.parts.len() {
                let mut p = plan.clone();
                p.parts.remove(k);
                renorm(&mut p);
                out.push(p);
            }
        }
        // no reader script / no faults
        for k in 0..plan.parts.len() {
            let part = &plan.parts[k];
            if !part.steps.is_empty() || part.cap != 8192 {
                let mut p = plan.clone();
                p.parts[k].steps.clear();
                p.parts[k].cap = 8192;
                out.push(p);
            }
            if part.eio_at.is_some() || part.eof_at.is_some() || part.bad_utf8_at.is_some() {
                let mut p = plan.clone();
                p.parts[k].eio_at = None;
                p.parts[k].eof_at = None;
                p.parts[k].bad_utf8_at = None;
                out.push(p);
            }
            if matches!(part.kind, PartKind::Stdin | PartKind::Fifo | PartKind::SymlinkToFile) {
                let mut p = plan.clone();
                p.parts[k].kind = PartKind::File;
                out.push(p);
            }
        }
        // fewer options
        macro_rules! without {
            ($field:ident, $none:expr) => {
                if plan.$field != $none {
                    let mut p = plan.clone();
                    p.$field = $none;
                    out.push(p);
                }
            };
        }
        without!(inv, false);
        without!(roundtrip, false);
        without!(height, None);
        without!(time, None);
        without!(crlf, false);
        without!(final_newline, true);
        without!(tree_in_user_dir, false);
        without!(nofile_limit, None);
        if plan.op != "addone" {
            let mut p = plan.clone();
            p.op = "addone".to_string();
            out.push(p);
        }
        // simpler lines
        for (i, l) in plan.lines.iter().enumerate().take(40) {
            if l != "1 2" {
                let mut p = plan.clone();
                p.lines[i] = "1 2".to_string();
                out.push(p);
            }
        }
        out
    }

    fn execute(&mut self, plan: &PlanK, rec: &mut Recorder) {
        self.run_no += 1;
        // ----- materialise the environment -----
        let dir = self.root.join("run");
        util::remove_any(&dir);
        std::fs::create_dir_all(&dir).expect("run dir");
        let user_link = self.root.join("xdg").join("geodesy");
        util::remove_any(&user_link);
        if plan.tree_in_user_dir {
            let _ = std::os::unix::fs::symlink(self.root.join("tree").join("geodesy"), &user_link);
            rec.probe("resources_from_user_data_dir");
        } else {
            let _ = std::os::unix::fs::symlink(self.root.join("tree").join("geodesy"), dir.join("geodesy"));
        }
        std::env::set_current_dir(&dir).expect("chdir run dir");
        let eol = if plan.crlf { "\r\n" } else { "\n" };

        // streams: bytes as written, and bytes as kp will get to see them
        let mut argv: Vec<String> = Vec::new();
        if plan.inv {
            argv.push("--inv".into());
        }
        if plan.roundtrip {
            argv.push("--roundtrip".into());
        }
        if let Some(h) = &plan.height {
            argv.push(format!("--height={}", h));
        }
        if let Some(t) = &plan.time {
            argv.push(format!("--time={}", t));
        }
        if let Some(d) = plan.decimals {
            argv.push("-d".into());
            argv.push(d.to_string());
        }
        if let Some(d) = plan.dimension {
            argv.push("-D".into());
            argv.push(d.to_string());
        }
        argv.push(plan.op.clone());

        let mut next_line = 0usize;
        let mut io_specs: Vec<String> = Vec::new();
        let mut stdin_file: Option<PathBuf> = None;
        // what the model reads: the concatenation of the visible bytes, until the first hard fault
        let mut visible: Vec<u8> = Vec::new();
        let mut hard_fault: Option<&'static str> = None; // first stream-level failure, in order
        let n_parts = plan.parts.len();
        let only_stdin_implicit = n_parts == 1 && plan.parts[0].kind == PartKind::Stdin && plan.lines.len() % 2 == 0;
        let mut stdin_seen = false;
        let mut saw_invalid_utf8 = false;
        let mut fifo_writers: Vec<(PathBuf, std::thread::JoinHandle<()>)> = Vec::new();
        for (k, part) in plan.parts.iter().enumerate() {
            let end = (next_line + part.lines).min(plan.lines.len());
            let is_last_part = k + 1 == n_parts;
            let mut bytes: Vec<u8> = Vec::new();
            for (i, l) in plan.lines[next_line..end].iter().enumerate() {
                bytes.extend_from_slice(l.as_bytes());
                let last_line_overall = is_last_part && next_line + i + 1 == plan.lines.len();
                if !last_line_overall || plan.final_newline {
                    bytes.extend_from_slice(eol.as_bytes());
                }
            }
            next_line = end;
            if let Some(at) = part.bad_utf8_at {
                if let Some(b) = bytes.get_mut(at as usize) {
                    *b = 0xFF;
                    rec.fault("invalid_utf8_byte");
                }
            }
            let name = format!("in{}.txt", k);
            let mut kind = part.kind.clone();
            if kind == PartKind::Stdin && stdin_seen {
                kind = PartKind::File;
            }
            match kind {
                PartKind::File => {
                    std::fs::write(dir.join(&name), &bytes).expect("write input");
                    argv.push(name);
                    if bytes.is_empty() {
                        rec.probe("empty_file_argument");
                    }
                }
                PartKind::SymlinkToFile => {
                    let target = format!("data{}.txt", k);
                    std::fs::write(dir.join(&target), &bytes).expect("write input");
                    let _ = std::os::unix::fs::symlink(dir.join(&target), dir.join(&name));
                    argv.push(name);
                    rec.probe("symlink_to_file_argument");
                }
                PartKind::Fifo => {
                    let path = dir.join(&name);
                    let made = Command::new("mkfifo").arg(&path).status().map(|s| s.success()).unwrap_or(false);
                    if made {
                        let data = bytes.clone();
                        let p2 = path.clone();
                        fifo_writers.push((
                            path.clone(),
                            std::thread::spawn(move || {
                                // blocks until kp (or, afterwards, the harness) opens the other end
                                if let Ok(mut f) = std::fs::OpenOptions::new().write(true).open(&p2) {
                                    use std::io::Write;
                                    let _ = f.write_all(&data);
                                }
                            }),
                        ));
                        rec.probe("fifo_argument");
                    } else {
                        std::fs::write(&path, &bytes).expect("write input");
                    }
                    argv.push(name);
                }
                PartKind::Stdin => {
                    stdin_seen = true;
                    let p = dir.join("stdin.txt");
                    std::fs::write(&p, &bytes).expect("write stdin");
                    stdin_file = Some(p);
                    if !only_stdin_implicit {
                        argv.push("-".into());
                    }
                    rec.probe("stdin_used");
                }
                PartKind::Absent => {
                    argv.push(name);
                    rec.fault("file_absent");
                    rec.probe("file_absent");
                }
                PartKind::Directory => {
                    std::fs::create_dir_all(dir.join(&name)).expect("mkdir");
                    argv.push(name);
                    rec.fault("file_is_directory");
                    rec.probe("file_is_directory");
                }
                PartKind::DanglingSymlink => {
                    let _ = std::os::unix::fs::symlink(dir.join("nowhere"), dir.join(&name));
                    argv.push(name);
                    rec.fault("dangling_symlink");
                }
            }
            // the reader seam only ever sees streams that opened
            let opened = matches!(kind, PartKind::File | PartKind::Stdin | PartKind::Directory | PartKind::Fifo | PartKind::SymlinkToFile);
            if hard_fault.is_none() {
                match kind {
                    PartKind::Absent | PartKind::DanglingSymlink => hard_fault = Some("open"),
                    PartKind::Directory => hard_fault = Some("read"),
                    _ => {
                        let mut seen = bytes.clone();
                        let mut fault_here: Option<&'static str> = None;
                        if let Some(at) = part.eof_at {
                            if (at as usize) < seen.len() {
                                seen.truncate(at as usize);
                                rec.fault("premature_eof");
                                rec.probe("premature_eof");
                            }
                        }
                        if let Some(at) = part.eio_at {
                            // an error is only delivered if the reader gets that far
                            if (at as usize) <= seen.len() && part.eof_at.map_or(true, |e| at <= e) {
                                seen.truncate(at as usize);
                                fault_here = Some("eio");
                                rec.fault("hard_read_error");
                                rec.probe("hard_read_error");
                            }
                        }
                        if let Err(e) = std::str::from_utf8(&seen) {
                            // lines() fails at the line holding the first invalid sequence (an
                            // injected 0xFF, or a multi-byte character cut by a premature end):
                            // everything up to the preceding newline is still delivered
                            let pos = e.valid_up_to();
                            let line_start = seen[..pos].iter().rposition(|b| *b == b'\n').map_or(0, |p| p + 1);
                            seen.truncate(line_start);
                            fault_here = Some("utf8");
                            saw_invalid_utf8 = true;
                            rec.probe("invalid_utf8");
                        } else if fault_here == Some("eio") {
                            // the partial line before the error is never delivered
                            let line_start = seen.iter().rposition(|b| *b == b'\n').map_or(0, |p| p + 1);
                            seen.truncate(line_start);
                        }
                        // streams are separate: a missing final newline ends the line anyway
                        visible.extend_from_slice(&seen);
                        if !seen.is_empty() && !seen.ends_with(b"\n") {
                            visible.push(b'\n');
                        }
                        hard_fault = fault_here;
                    }
                }
            }
            if opened {
                let mut spec = String::new();
                if !part.steps.is_empty() || part.cap != 8192 || part.eio_at.is_some() || part.eof_at.is_some() {
                    spec.push_str(&format!("cap={}", part.cap.max(1)));
                    if !part.steps.is_empty() {
                        let s: Vec<String> = part.steps.iter().map(|s| if *s == 0 { "i".to_string() } else { s.to_string() }).collect();
                        spec.push_str(&format!(";steps={}", s.join(",")));
                        if part.steps.contains(&0) {
                            rec.fault("eintr");
                            rec.probe("eintr");
                        }
                        rec.fault("short_reads");
                        rec.probe("short_reads");
                    }
                    if let Some(at) = part.eio_at {
                        spec.push_str(&format!(";eio={}", at));
                    }
                    if let Some(at) = part.eof_at {
                        spec.push_str(&format!(";eof={}", at));
                    }
                }
                io_specs.push(spec);
            }
        }
        if n_parts > 1 {
            rec.probe("multi_file");
        }

        // ----- the model -----
        let text = String::from_utf8_lossy(&visible).to_string();
        let coord_lines: Vec<Vec<&str>> = text.lines().map(tokens_of).filter(|t| !t.is_empty()).collect();
        let n_coord = coord_lines.len();
        let height: Option<f64> = plan.height.as_ref().and_then(|h| h.parse().ok());
        let time: Option<f64> = plan.time.as_ref().and_then(|t| t.parse().ok());
        let op = plan.op.clone();
        let (inv, roundtrip) = (plan.inv, plan.roundtrip);
        let model = catch(|| -> Result<(Vec<Expected>, bool), String> {
            let mut ctx = Plain::new();
            let handle = ctx.op(&op).map_err(|e| e.to_string())?;
            let mut all_ok = true;
            let mut out = Vec::with_capacity(coord_lines.len());
            for toks in &coord_lines {
                let own = toks.len();
                // kp looks at the first four columns; values for over-long lines are
                // computed (they matter for success bookkeeping) but not asserted
                let mut b = [0.0, 0.0, 0.0, f64::NAN];
                for (i, t) in toks.iter().take(4).enumerate() {
                    b[i] = parse_number(t);
                }
                if let Some(h) = height {
                    b[2] = h;
                }
                if let Some(t) = time {
                    b[3] = t;
                }
                let mut data = vec![Coor4D(b)];
                let first = if inv { Inv } else { Fwd };
                let second = if inv { Fwd } else { Inv };
                let n1 = ctx.apply(handle, first, &mut data).map_err(|e| e.to_string())?;
                let mut result = data[0].0;
                if roundtrip {
                    let n2 = ctx.apply(handle, second, &mut data).map_err(|e| e.to_string())?;
                    if n1 != 1 || n2 != 1 {
                        all_ok = false;
                    }
                    let d = data[0].0;
                    result = [d[0] - b[0], d[1] - b[1], d[2] - b[2], d[3] - b[3]];
                }
                out.push(Expected { own_dims: own, result: if own > 4 { None } else { Some(result) } });
            }
            Ok((out, all_ok))
        });

        // ----- run kp -----
        let mut cmd = match plan.nofile_limit {
            Some(n) => {
                rec.probe("low_open_file_limit");
                rec.fault("open_file_limit");
                let mut c = Command::new("sh");
                c.arg("-c").arg(format!("ulimit -n {}; exec \"$0\" \"$@\"", n)).arg(&self.kp);
                c
            }
            None => Command::new(&self.kp),
        };
        cmd.args(&argv)
            .current_dir(&dir)
            .env_clear()
            .env("XDG_DATA_HOME", self.root.join("xdg"))
            .env("HOME", &self.root)
            .env("RUST_BACKTRACE", "0")
            .env("GEODESY_VERIF_KP_IO", io_specs.join("|"))
            .stdout(Stdio::piped())
            .stderr(Stdio::piped());
        match &stdin_file {
            Some(p) => {
                cmd.stdin(Stdio::from(std::fs::File::open(p).expect("open stdin file")));
            }
            None => {
                cmd.stdin(Stdio::null());
            }
        }
        let mut child = match cmd.spawn() {
            Ok(c) => c,
            Err(e) => {
                rec.violate("HARNESS-PANIC", &format!("cannot spawn kp: {e}"), self.kp.display().to_string());
                return;
            }
        };
        let mut so = child.stdout.take().unwrap();
        let mut se = child.stderr.take().unwrap();
        let t_out = std::thread::spawn(move || {
            let mut v = Vec::new();
            let _ = so.read_to_end(&mut v);
            v
        });
        let t_err = std::thread::spawn(move || {
            let mut v = Vec::new();
            let _ = se.read_to_end(&mut v);
            v
        });
        let deadline = std::time::Instant::now() + std::time::Duration::from_secs(30);
        let status = loop {
            match child.try_wait() {
                Ok(Some(st)) => break Some(st),
                Ok(None) => {
                    if std::time::Instant::now() > deadline {
                        let _ = child.kill();
                        let _ = child.wait();
                        break None;
                    }
                    std::thread::sleep(std::time::Duration::from_micros(300));
                }
                Err(_) => break None,
            }
        };
        let stdout = t_out.join().unwrap_or_default();
        let stderr = t_err.join().unwrap_or_default();
        // writers of pipes kp never opened (it stopped earlier) are released by opening
        // and closing the reading end ourselves
        for (path, handle) in fifo_writers {
            use std::os::unix::fs::OpenOptionsExt;
            if !handle.is_finished() {
                // hold a (non-blocking) reading end and drain it until the writer is done
                if let Ok(mut reader) = std::fs::OpenOptions::new().read(true).custom_flags(0o4000).open(&path) {
                    let mut sink = [0u8; 65536];
                    while !handle.is_finished() {
                        let _ = reader.read(&mut sink);
                        std::thread::sleep(std::time::Duration::from_micros(200));
                    }
                }
            }
            let _ = handle.join();
        }
        rec.event();

        let args_shown = argv.join(" ");
        let Some(status) = status else {
            rec.violate("I-live", "kp does not terminate", format!("kp {} (killed after 30 s)", args_shown));
            return;
        };
        let code = status.code();
        let stderr_text = String::from_utf8_lossy(&stderr).to_string();
        let stdout_text = String::from_utf8_lossy(&stdout).to_string();
        let out_lines: Vec<&str> = stdout_text.lines().collect();

        // ----- signature and probes -----
        let mut sig = Hash128::new();
        sig.str(&plan.op);
        sig.u64(plan.inv as u64 | (plan.roundtrip as u64) << 1 | (plan.height.is_some() as u64) << 2 | (plan.time.is_some() as u64) << 3 | (plan.decimals.is_some() as u64) << 4 | (plan.dimension.unwrap_or(0) as u64) << 5);
        sig.u64(match n_coord {
            0 => 0,
            1 => 1,
            2..=100 => 2,
            101..=24998 => 3,
            24999 => 4,
            25000 => 5,
            25001 => 6,
            _ => 7,
        });
        sig.u64(n_parts as u64);
        sig.str(hard_fault.unwrap_or("-"));
        sig.u64(code.unwrap_or(-1) as u64);
        for p in &plan.parts {
            sig.u64(p.steps.is_empty() as u64 | (p.eio_at.is_some() as u64) << 1 | (p.eof_at.is_some() as u64) << 2);
        }
        if n_coord > 0 {
            rec.sig(sig.low());
        }
        if n_coord == 0 {
            rec.probe("empty_input");
        }
        if n_coord > 0 && n_coord % BATCH == 0 {
            rec.probe("batch_boundary_exact");
        }
        if n_coord % BATCH == 1 && n_coord > BATCH {
            rec.probe("batch_boundary_plus_one");
        }
        if plan.roundtrip {
            rec.probe("roundtrip");
        }
        if plan.inv {
            rec.probe("inverse");
        }
        if coord_lines.iter().any(|t| t.iter().any(|x| x.contains(':'))) {
            rec.probe("sexagesimal");
        }
        if coord_lines.iter().any(|t| t.len() > 4) {
            rec.probe("overlong_line");
        }

        // ----- oracle -----
        let panicked = code == Some(101) || stderr_text.contains("panicked at");
        let model = match model {
            Err(panic) => {
                // the library itself panics on this input, in process: not kp's doing
                rec.tolerate(&format!("library panics in the model: {}", util::normalize_panic(&panic)));
                rec.logf(|| format!("kp {} -> code {:?} (model panicked)", args_shown, code));
                return;
            }
            Ok(m) => m,
        };
        if panicked {
            let first = stderr_text.lines().find(|l| l.contains("panicked at")).unwrap_or("").to_string();
            let second = stderr_text.lines().skip_while(|l| !l.contains("panicked at")).nth(1).unwrap_or("").to_string();
            rec.violate(
                "I-nopanic",
                &format!("kp panics: {} {}", first.split("panicked at").nth(1).unwrap_or("").trim(), second.trim()),
                format!("kp {} ({} coordinate lines, fault {:?}): exit {:?}, stderr: {}", args_shown, n_coord, hard_fault, code, stderr_text.lines().take(3).collect::<Vec<_>>().join(" / ")),
            );
            return;
        }
        let (expected, all_ok) = match model {
            Err(op_error) => {
                rec.probe("invalid_operation");
                if code == Some(0) || code.is_none() {
                    rec.violate("I-err", "invalid operation does not end with a non-zero status", format!("kp {}: exit {:?}; library says: {}", args_shown, code, op_error));
                } else if stderr_text.trim().is_empty() {
                    rec.violate("I-err", "invalid operation ends without an error message", format!("kp {}", args_shown));
                }
                rec.logf(|| format!("kp {} -> invalid op, code {:?}", args_shown, code));
                return;
            }
            Ok(x) => x,
        };
        // With failing tuples in a roundtrip, kp may refuse the batch (count mismatch
        // between the two directions); when it prints, every line is still asserted
        let check_values = true;
        // exit status
        // Whether text that is not valid UTF-8 makes a file "unreadable" is left open:
        // kp may stop with an error or decode leniently and carry on. Either way the
        // lines printed for the input before the invalid bytes must be right.
        let hard_fault = if hard_fault == Some("utf8") && code == Some(0) { None } else { hard_fault };
        let lenient_utf8 = saw_invalid_utf8;
        match hard_fault {
            Some(what) => {
                if code == Some(0) {
                    rec.violate(
                        "I-err",
                        &format!("unreadable input ({}) ends with status 0", match what {
                            "open" => "file cannot be opened",
                            "read" => "directory in place of a file",
                            "eio" => "read error mid-stream",
                            _ => "invalid UTF-8",
                        }),
                        format!("kp {} ({} coordinate lines before the fault): exit 0, {} output lines", args_shown, n_coord, out_lines.len()),
                    );
                    return;
                }
                if stderr_text.trim().is_empty() {
                    rec.violate("I-err", "unreadable input ends without an error message", format!("kp {}", args_shown));
                    return;
                }
                if out_lines.len() > n_coord {
                    rec.violate("I-lines", "more output lines than coordinate lines read before the input failed", format!("kp {}: {} > {}", args_shown, out_lines.len(), n_coord));
                    return;
                }
            }
            None => {
                let rt_mismatch_allowed = plan.roundtrip && !all_ok;
                if code != Some(0) && !rt_mismatch_allowed {
                    rec.violate(
                        "I-lines",
                        "kp fails on readable input and a valid operation",
                        format!("kp {} ({} coordinate lines): exit {:?}, stderr: {}", args_shown, n_coord, code, stderr_text.lines().next().unwrap_or("")),
                    );
                    return;
                }
                if code == Some(0) && out_lines.len() != n_coord && !(lenient_utf8 && out_lines.len() >= n_coord) {
                    rec.violate(
                        "I-lines",
                        "number of output lines differs from the number of coordinate lines",
                        format!("kp {}: {} coordinate lines in, {} lines out", args_shown, n_coord, out_lines.len()),
                    );
                    return;
                }
            }
        }
        // content: every printed line is right for its input line (a correct prefix after a fault)
        if check_values {
            for (i, line) in out_lines.iter().enumerate() {
                let Some(exp) = expected.get(i) else { break };
                let Some(result) = exp.result else { continue };
                // columns are compared as white space separated tokens: how kp separates or
                // terminates them is not the property's subject
                let got: Vec<&str> = line.split_whitespace().collect();
                let same_number = |printed: &str, want: &str| -> bool {
                    if printed == want {
                        return true;
                    }
                    // the sign of a zero is not a matter of rounding: "-0.00" and "0.00" agree
                    if printed.trim_start_matches('-') == want.trim_start_matches('-') && want.trim_start_matches('-').chars().all(|c| c == '0' || c == '.') {
                        return true;
                    }
                    // spelling of non-finite values is left open
                    let (p, w) = (printed.to_ascii_lowercase(), want.to_ascii_lowercase());
                    let norm = |s: &str| s.replace("infinity", "inf").replace('+', "");
                    (w.contains("nan") && p.contains("nan")) || (w.contains("inf") && norm(&p) == norm(&w))
                };
                let ok = {
                    let cols = &got[..];
                    // without -D / -d the number of columns and decimals is kp's own estimate
                    let dims_ok = match plan.dimension {
                        Some(d) => cols.len() == d as usize,
                        None => !cols.is_empty() && cols.len() <= 4,
                    };
                    let decs: Vec<usize> = match plan.decimals {
                        Some(d) => vec![d as usize],
                        None => (0..=17).collect(),
                    };
                    dims_ok && decs.iter().any(|d| cols.iter().enumerate().all(|(k, c)| same_number(c, &format!("{:.*}", *d, result[k]))))
                };
                if !ok {
                    let d = plan.decimals.map(|d| d as usize).unwrap_or(10);
                    let want: Vec<String> = (0..plan.dimension.map(|d| d as usize).unwrap_or(exp.own_dims.min(4))).map(|k| format!("{:.*}", d, result[k])).collect();
                    rec.violate(
                        "I-lines",
                        "an output line differs from the library's result for that input line",
                        format!("kp {}: coordinate line {} of {} ({:?}): printed '{}', library gives '{} ' (decimals {:?}, dimension {:?})", args_shown, i, n_coord, coord_lines[i], line, want.join(" "), plan.decimals, plan.dimension),
                    );
                    return;
                }
            }
        }
        rec.logf(|| {
            let mut h = Hash128::new();
            h.bytes(&stdout);
            format!("kp {} -> code {:?} out {} lines {} stderr_empty={}", args_shown, code, out_lines.len(), h.hex(), stderr_text.trim().is_empty())
        });
    }
}
