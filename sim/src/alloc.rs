//! Counting global allocator: lets an engine bound the memory a library call asks for
//! ("never allocates without bound").

use std::alloc::{GlobalAlloc, Layout, System};
use std::sync::atomic::{AtomicUsize, Ordering::Relaxed};

pub struct Counting;

static CURRENT: AtomicUsize = AtomicUsize::new(0);
static PEAK: AtomicUsize = AtomicUsize::new(0);
static LARGEST: AtomicUsize = AtomicUsize::new(0);

unsafe impl GlobalAlloc for Counting {
    unsafe fn alloc(&self, layout: Layout) -> *mut u8 {
        let p = System.alloc(layout);
        if !p.is_null() {
            let now = CURRENT.fetch_add(layout.size(), Relaxed) + layout.size();
            PEAK.fetch_max(now, Relaxed);
            LARGEST.fetch_max(layout.size(), Relaxed);
        }
        p
    }
    unsafe fn dealloc(&self, ptr: *mut u8, layout: Layout) {
        System.dealloc(ptr, layout);
        CURRENT.fetch_sub(layout.size(), Relaxed);
    }
    unsafe fn realloc(&self, ptr: *mut u8, layout: Layout, new_size: usize) -> *mut u8 {
        let p = System.realloc(ptr, layout, new_size);
        if !p.is_null() {
            if new_size >= layout.size() {
                let d = new_size - layout.size();
                let now = CURRENT.fetch_add(d, Relaxed) + d;
                PEAK.fetch_max(now, Relaxed);
            } else {
                CURRENT.fetch_sub(layout.size() - new_size, Relaxed);
            }
            LARGEST.fetch_max(new_size, Relaxed);
        }
        p
    }
}

/// Start a measurement: returns the baseline
pub fn mark() -> usize {
    let now = CURRENT.load(Relaxed);
    PEAK.store(now, Relaxed);
    LARGEST.store(0, Relaxed);
    now
}

/// Bytes above the baseline at the high-water mark since `mark`
pub fn peak_above(baseline: usize) -> usize {
    PEAK.load(Relaxed).saturating_sub(baseline)
}

pub fn largest_request() -> usize {
    LARGEST.load(Relaxed)
}
