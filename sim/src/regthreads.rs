//! C18, concurrent part: shuttle-scheduled threads sharing one `Arc<Plain>` for
//! apply, owning private contexts for op/clear_grids, with an environment thread
//! replacing grid files. Every acquire/release of the grid cache lock is a
//! scheduling point the seeded scheduler owns (hook H1).

use crate::engine::{Engine, EngineInfo, Recorder, Tier};
use crate::regsim::{check_value, grid_bytes, root_dir, setup_scratch, wipe_roots, GRID_NAMES, PROBES};
use crate::rng::Rng;
use crate::util::{self, catch, Hash128, Scratch};
use geodesy::prelude::*;
use serde::{Deserialize, Serialize};
use std::path::{Path, PathBuf};
use std::sync::atomic::{AtomicU64, Ordering::SeqCst};
use std::sync::{Arc, Mutex};
use std::time::Duration;

#[derive(Serialize, Deserialize, Clone, Debug, PartialEq)]
pub enum TEv {
    /// op("gridshift grids=<grid>") on the thread's private context, then observe the version
    Op { grid: u8 },
    /// op with both grids listed
    OpBoth,
    /// apply pre-created operator #op of the shared context
    ApplyShared { op: u8 },
    Clear,
    /// re-apply an operator this thread created earlier
    Recheck { nth: u8 },
    /// environment: replace a grid file by a new version
    WriteGrid { grid: u8, version: u32 },
    /// environment: remove a grid file (an op() may then fail, but only then)
    DeleteGrid { grid: u8 },
}

#[derive(Serialize, Deserialize, Clone, Debug, PartialEq)]
pub struct PlanT {
    /// 0 = uniformly random schedule, 1 = PCT
    pub scheduler: u8,
    pub scheduler_seed: u64,
    pub pct_depth: u8,
    /// version on disk at the start, per grid name
    pub initial: Vec<u32>,
    /// thread 0 is the environment thread when it holds WriteGrid events
    pub threads: Vec<Vec<TEv>>,
    /// seed of the identifier source behind OpHandle (vendored uuid, DESIGN §2 "H3"); 0 = not seeded
    #[serde(default)]
    pub ids: u64,
}

#[derive(Clone, Debug)]
enum Obs {
    Op { thread: usize, grid: u8, both: bool, invoke: u64, ret: u64, version: Result<f64, String> },
    Clear { invoke: u64, ret: u64 },
    Write { grid: u8, version: u32, invoke: u64, ret: u64 },
    Shared { thread: usize, op: u8, ok: Result<(), String> },
    Recheck { thread: usize, ok: Result<(), String> },
}

pub struct RegThreads {
    _scratch: Scratch,
    root: PathBuf,
}

fn lock_hook(event: u8) {
    if event == geodesy::verif_seam::LOCK_CONTENDED {
        // lowers the spinner's priority under PCT, so that the holder gets to run
        shuttle::thread::yield_now();
    } else {
        shuttle::thread::sleep(Duration::ZERO);
    }
}

static CLOCK: AtomicU64 = AtomicU64::new(0);
fn tick() -> u64 {
    CLOCK.fetch_add(1, SeqCst)
}

fn observe_version(ctx: &Plain, h: geodesy::ctx::OpHandle) -> Result<f64, String> {
    let mut data = vec![Coor4D(PROBES[0])];
    match ctx.apply(h, Fwd, &mut data) {
        Ok(_) => Ok(-data[0][2]),
        Err(e) => Err(e.to_string()),
    }
}

fn body(plan: Arc<PlanT>, root: PathBuf, log: Arc<Mutex<Vec<Obs>>>) {
    // initial disk: all in the first root
    wipe_roots(&root);
    for (g, v) in plan.initial.iter().enumerate() {
        let name = GRID_NAMES[g % GRID_NAMES.len()];
        let _ = std::fs::write(root_dir(&root, 0).join("geoid").join(name), grid_bytes(*v));
    }
    Plain::verif_reset_grids();
    uuid::verif_source::seed(if plan.ids == 0 { None } else { Some((plan.ids, plan.ids & 1 == 1)) });
    CLOCK.store(1, SeqCst);
    // the shared context with its pre-created operators
    let mut shared = Plain::new();
    let mut shared_ops: Vec<(geodesy::ctx::OpHandle, [f64; 4])> = Vec::new();
    for (g, v) in plan.initial.iter().enumerate() {
        let name = GRID_NAMES[g % GRID_NAMES.len()];
        if let Ok(h) = shared.op(&format!("gridshift grids={}", name)) {
            shared_ops.push((h, [0.0, 0.0, -(*v as f64), 0.0]));
        }
    }
    if let Ok(h) = shared.op("helmert x=1 y=2 z=3 | addone") {
        shared_ops.push((h, [2.0, 2.0, 3.0, 0.0]));
    }
    // start from an empty cache: the threads' first lookups race for the load
    Plain::clear_grids();
    let shared = Arc::new(shared);
    let shared_ops = Arc::new(shared_ops);

    let mut handles = Vec::new();
    for (t, script) in plan.threads.iter().enumerate() {
        let script = script.clone();
        let shared = shared.clone();
        let shared_ops = shared_ops.clone();
        let log = log.clone();
        let root = root.clone();
        handles.push(shuttle::thread::spawn(move || {
            let mut private = Plain::new();
            let mut mine: Vec<(geodesy::ctx::OpHandle, f64)> = Vec::new();
            for ev in script {
                shuttle::thread::sleep(Duration::ZERO);
                match ev {
                    TEv::Op { grid } => {
                        let name = GRID_NAMES[grid as usize % GRID_NAMES.len()];
                        let invoke = tick();
                        let made = private.op(&format!("gridshift grids={}", name));
                        let ret = tick();
                        let version = match made {
                            Ok(h) => {
                                let v = observe_version(&private, h);
                                if let Ok(v) = v {
                                    mine.push((h, v));
                                }
                                v
                            }
                            Err(e) => Err(e.to_string()),
                        };
                        log.lock().unwrap().push(Obs::Op { thread: t, grid, both: false, invoke, ret, version });
                    }
                    TEv::OpBoth => {
                        let invoke = tick();
                        let made = private.op(&format!("gridshift grids={}, {}", GRID_NAMES[0], GRID_NAMES[1]));
                        let ret = tick();
                        let version = match made {
                            Ok(h) => {
                                let v = observe_version(&private, h);
                                if let Ok(v) = v {
                                    mine.push((h, v));
                                }
                                v
                            }
                            Err(e) => Err(e.to_string()),
                        };
                        // the first grid listed decides the value
                        log.lock().unwrap().push(Obs::Op { thread: t, grid: 0, both: true, invoke, ret, version });
                    }
                    TEv::ApplyShared { op } => {
                        if shared_ops.is_empty() {
                            continue;
                        }
                        let (h, t4) = shared_ops[op as usize % shared_ops.len()];
                        let ok = check_value(shared.as_ref(), h, t4);
                        log.lock().unwrap().push(Obs::Shared { thread: t, op, ok });
                    }
                    TEv::Clear => {
                        let invoke = tick();
                        Plain::clear_grids();
                        let ret = tick();
                        log.lock().unwrap().push(Obs::Clear { invoke, ret });
                    }
                    TEv::Recheck { nth } => {
                        if mine.is_empty() {
                            continue;
                        }
                        let (h, v) = mine[nth as usize % mine.len()];
                        let ok = match observe_version(&private, h) {
                            Ok(now) if now == v => Ok(()),
                            Ok(now) => Err(format!("operator created with grid version {} now applies version {}", v, now)),
                            Err(e) => Err(e),
                        };
                        log.lock().unwrap().push(Obs::Recheck { thread: t, ok });
                    }
                    TEv::WriteGrid { grid, version } => {
                        let name = GRID_NAMES[grid as usize % GRID_NAMES.len()];
                        let invoke = tick();
                        let _ = std::fs::write(root_dir(&root, 0).join("geoid").join(name), grid_bytes(version));
                        let ret = tick();
                        log.lock().unwrap().push(Obs::Write { grid, version, invoke, ret });
                    }
                    TEv::DeleteGrid { grid } => {
                        let name = GRID_NAMES[grid as usize % GRID_NAMES.len()];
                        let invoke = tick();
                        util::remove_any(&root_dir(&root, 0).join("geoid").join(name));
                        let ret = tick();
                        // version 0 stands for "absent"
                        log.lock().unwrap().push(Obs::Write { grid, version: 0, invoke, ret });
                    }
                }
            }
            // at the end every operator of this thread still is what it was
            for (h, v) in &mine {
                let ok = match observe_version(&private, *h) {
                    Ok(now) if now == *v => Ok(()),
                    Ok(now) => Err(format!("operator created with grid version {} applies version {} at the end", v, now)),
                    Err(e) => Err(e),
                };
                log.lock().unwrap().push(Obs::Recheck { thread: t, ok });
            }
        }));
    }
    for h in handles {
        let _ = h.join();
    }
}

fn run_schedule(plan: &PlanT, root: &Path) -> (Vec<Obs>, Option<String>) {
    let log: Arc<Mutex<Vec<Obs>>> = Arc::new(Mutex::new(Vec::new()));
    let plan_arc = Arc::new(plan.clone());
    let root_buf = root.to_path_buf();
    let log2 = log.clone();
    let scheduler = plan.scheduler;
    let seed = plan.scheduler_seed;
    let depth = plan.pct_depth.max(1) as usize;
    geodesy::verif_seam::set_lock_hook(Some(lock_hook));
    let result = catch(move || {
        let mut config = shuttle::Config::new();
        config.stack_size = 1 << 20;
        config.failure_persistence = shuttle::FailurePersistence::None;
        config.max_steps = shuttle::MaxSteps::FailAfter(20_000);
        config.silence_warnings = true;
        let f = move || body(plan_arc.clone(), root_buf.clone(), log2.clone());
        if scheduler % 2 == 0 {
            shuttle::Runner::new(shuttle::scheduler::RandomScheduler::new_from_seed(seed, 1), config).run(f);
        } else {
            shuttle::Runner::new(shuttle::scheduler::PctScheduler::new_from_seed(seed, depth, 1), config).run(f);
        }
    });
    geodesy::verif_seam::set_lock_hook(None);
    let obs = log.lock().map(|l| l.clone()).unwrap_or_default();
    (obs, result.err())
}

impl Engine for RegThreads {
    type Plan = PlanT;
    const NAME: &'static str = "regsim-threads";
    const PROPERTY: &'static str = "C18";

    fn new(_tier: Tier) -> Self {
        let (scratch, root) = setup_scratch("regthreads");
        // Initialise the process wide cache object now: its first use takes a
        // different path (no lock yet), which would give the first run of a process
        // other scheduling points than the same run later in a process
        let _ = Plain::new().op("gridshift grids=not.there");
        Plain::verif_reset_grids();
        RegThreads { _scratch: scratch, root }
    }

    fn info() -> EngineInfo {
        EngineInfo {
            rule: "regsim-threads: one run = one shuttle execution (one seeded schedule; uniformly random or PCT with depth 1-3) of 2-4 threads. All share one Arc<Plain> holding pre-created operators (apply only); each owns a private Plain on which it instantiates gridshift operators, re-applies them, and calls Plain::clear_grids; one thread is the environment and replaces constant-valued grid files by new versions. Through the verif_seam Mutex shim every acquire, contended retry and release of the process wide grid cache lock is a scheduling point; the harness yields between API calls. History check by global event sequence numbers: every op() on an always-valid file succeeds; the version it observes is one its file held at some instant up to the call's return (which of them is left open); shared and private operators return their creation-time values whenever they are applied; no deadlock, no livelock (step bound), no panic. Non-trivial = at least two threads touch the cache concurrently with a write or a clear; distinct = hash of the observation sequence (which thread saw what in which order), i.e. distinct observable interleavings.",
            real_components: &["geodesy Plain contexts, GRIDS cache and its lock (std Mutex inside the verif_seam shim), gridshift operator, grid decoder", "std::fs on tmpfs"],
            simulated_components: &["the thread scheduler (shuttle RandomScheduler / PctScheduler, one schedule per run, seed in the Plan)", "the environment thread replacing grid files", "the identifier source behind Uuid::new_v4 (vendored uuid 1.26.1, seed in the Plan)"],
            assumptions: &[
                "shuttle runs the threads as coroutines on one OS thread, so code between two scheduling points is atomic; scheduling points exist at every grid cache lock operation (hook) and between API calls (harness), not inside std::fs calls",
                "which version a racing op() sees is not fixed by the property: any version the file has held up to the call's return is accepted",
            ],
            required_probes: &["op_concurrent_with_clear", "op_concurrent_with_write", "two_ops_race_for_load", "shared_apply_during_clear", "stale_version_served_from_cache", "op_fails_while_file_absent", "pct_schedule", "random_schedule"],
            exhaustive: false,
        }
    }

    fn runs(&self, tier: Tier) -> u64 {
        match tier {
            Tier::Quick => 300_000,
            Tier::Thorough => 10_000_000,
        }
    }

    fn generate(&self, _index: u64, seed: u64, _tier: Tier) -> PlanT {
        let mut rng = Rng::new(seed);
        let ids = rng.clone().fork().next_u64() | 2;
        let n_threads = 2 + rng.below(3);
        let with_env = rng.chance(0.7);
        let clears = rng.chance(0.75);
        let mut version = 1u32;
        let initial: Vec<u32> = GRID_NAMES
            .iter()
            .map(|_| {
                version += 1;
                version - 1
            })
            .collect();
        let mut threads = Vec::new();
        for t in 0..n_threads {
            let len = 1 + rng.below(6);
            let mut script = Vec::new();
            if t == 0 && with_env {
                let deletes = rng.chance(0.4);
                for _ in 0..len {
                    if deletes && rng.chance(0.3) {
                        script.push(TEv::DeleteGrid { grid: rng.below(GRID_NAMES.len()) as u8 });
                    } else {
                        script.push(TEv::WriteGrid { grid: rng.below(GRID_NAMES.len()) as u8, version });
                        version += 1;
                    }
                }
            } else {
                for _ in 0..len {
                    script.push(match rng.weighted(&[45, 8, 17, if clears { 20 } else { 0 }, 10]) {
                        0 => TEv::Op { grid: rng.below(GRID_NAMES.len()) as u8 },
                        1 => TEv::OpBoth,
                        2 => TEv::ApplyShared { op: rng.below(3) as u8 },
                        3 => TEv::Clear,
                        _ => TEv::Recheck { nth: rng.below(4) as u8 },
                    });
                }
            }
            threads.push(script);
        }
        PlanT {
            scheduler: rng.below(2) as u8,
            scheduler_seed: rng.next_u64(),
            pct_depth: 1 + rng.below(3) as u8,
            initial,
            threads,
            ids,
        }
    }

    fn plan_size(&self, plan: &PlanT) -> usize {
        plan.threads.iter().map(|t| t.len()).sum::<usize>() + plan.threads.len()
    }

    fn shrink_candidates(&self, plan: &PlanT) -> Vec<PlanT> {
        // Dropping an event shifts the scheduler's choices, so every structural
        // candidate is offered under several scheduler seeds
        let mut structural = Vec::new();
        for t in 0..plan.threads.len() {
            if plan.threads.len() > 2 {
                let mut p = plan.clone();
                p.threads.remove(t);
                structural.push(p);
            }
            for k in 0..plan.threads[t].len() {
                let mut p = plan.clone();
                p.threads[t].remove(k);
                structural.push(p);
            }
        }
        let mut out = Vec::new();
        for p in structural {
            out.push(p.clone());
            let mut r = Rng::new(p.scheduler_seed ^ 0x5EED);
            for _ in 0..12 {
                let mut q = p.clone();
                q.scheduler_seed = r.next_u64();
                out.push(q);
            }
        }
        out
    }

    fn execute(&mut self, plan: &PlanT, rec: &mut Recorder) {
        let (obs, panic) = run_schedule(plan, &self.root);
        rec.probe(if plan.scheduler % 2 == 0 { "random_schedule" } else { "pct_schedule" });
        let mut sig = Hash128::new();
        let mut clears: Vec<(u64, u64)> = Vec::new();
        // writes per grid: (version, invoke, ret); the initial version is on disk from time 0
        let mut writes: Vec<Vec<(f64, u64, u64)>> = plan.initial.iter().map(|v| vec![(*v as f64, 0, 0)]).collect();
        for o in &obs {
            match o {
                Obs::Clear { invoke, ret } => clears.push((*invoke, *ret)),
                Obs::Write { grid, version, invoke, ret } => {
                    let g = *grid as usize % writes.len().max(1);
                    if let Some(w) = writes.get_mut(g) {
                        w.push((*version as f64, *invoke, *ret));
                    }
                }
                _ => {}
            }
        }
        for w in writes.iter_mut() {
            w.sort_by(|a, b| a.1.cmp(&b.1));
        }
        for o in &obs {
            rec.event();
            match o {
                Obs::Op { thread, grid, both, invoke, ret, version } => {
                    sig.str("O");
                    sig.u64(*thread as u64);
                    let g = *grid as usize % writes.len().max(1);
                    // probes: what was concurrent with this op?
                    if clears.iter().any(|(ci, cr)| ci < ret && cr > invoke) {
                        rec.probe("op_concurrent_with_clear");
                    }
                    if writes[g].iter().skip(1).any(|(_, wi, wr)| wi < ret && wr > invoke) || writes[g].iter().skip(1).any(|(_, wi, _)| wi > invoke && wi < ret) {
                        rec.probe("op_concurrent_with_write");
                    }
                    if obs.iter().any(|p| matches!(p, Obs::Op { thread: t2, grid: g2, invoke: i2, ret: r2, .. } if t2 != thread && *g2 % GRID_NAMES.len() as u8 == *grid % GRID_NAMES.len() as u8 && i2 < ret && r2 > invoke)) {
                        rec.probe("two_ops_race_for_load");
                    }
                    match version {
                        Err(e) => {
                            // admissible only if the file was absent at some instant during the call
                            let ws = &writes[g];
                            let mut absent_during_call = false;
                            // an operator listing both grids needs both of them
                            let needed: Vec<usize> = if *both { (0..writes.len()).collect() } else { vec![g] };
                            for n in needed {
                                let wn = &writes[n];
                                for (k, (wv, wi, _)) in wn.iter().enumerate() {
                                    let end = wn.get(k + 1).map(|x| x.2).unwrap_or(u64::MAX);
                                    if *wv == 0.0 && *wi <= *ret && end >= *invoke {
                                        absent_during_call = true;
                                    }
                                }
                            }
                            if absent_during_call {
                                rec.probe("op_fails_while_file_absent");
                                sig.str("E");
                                continue;
                            }
                            rec.violate(
                                "I-sched",
                                "op() fails although its grid file is present and valid throughout the call (spurious error under concurrency)",
                                format!("thread {} op on {} between events {} and {}: {}; writes {:?}", thread, GRID_NAMES[g], invoke, ret, e, ws),
                            );
                            break;
                        }
                        Ok(v) => {
                            sig.u64(v.to_bits());
                            // admissible: a version the file had at some instant up to the call's
                            // return. (An earlier revision also required "not older than the last
                            // clear_grids that completed before the call"; the property does not
                            // promise that under concurrency -- a correct cache that loads outside
                            // its lock may re-insert what it read before the clear -- so that was
                            // demanding more than stated. Sequentially, regsim still checks it.)
                            let lo = 0u64;
                            let _ = clears.len();
                            let mut admissible = false;
                            let ws = &writes[g];
                            for (k, (wv, wi, _wr)) in ws.iter().enumerate() {
                                // version k is on disk from the start of its write to the end of the next one
                                let end = ws.get(k + 1).map(|n| n.2).unwrap_or(u64::MAX);
                                if *wv != 0.0 && *wv == *v && *wi <= *ret && end >= lo {
                                    admissible = true;
                                }
                            }
                            if !admissible {
                                rec.violate(
                                    "I-sched",
                                    "op() observed a grid version that its file never held up to the end of the call",
                                    format!("thread {} op on {} [{}..{}] observed version {}; writes {:?}; clears {:?}", thread, GRID_NAMES[g], invoke, ret, v, ws, clears),
                                );
                                break;
                            }
                            let current = ws.iter().filter(|(_, _, wr)| wr < invoke).last().map(|w| w.0);
                            if current.is_some() && current != Some(*v) && ws.iter().all(|(_, wi, wr)| !(wi < ret && wr > invoke)) {
                                rec.probe("stale_version_served_from_cache");
                            }
                        }
                    }
                }
                Obs::Shared { thread, op, ok } => {
                    sig.str("S");
                    sig.u64(*thread as u64);
                    if !clears.is_empty() {
                        rec.probe("shared_apply_during_clear");
                    }
                    if let Err(why) = ok {
                        rec.violate("I-imm", "an operator of the shared context changed under concurrent use", format!("thread {} shared operator #{}: {}", thread, op, why));
                        break;
                    }
                }
                Obs::Recheck { thread, ok } => {
                    sig.str("K");
                    if let Err(why) = ok {
                        rec.violate("I-imm", "an operator changed after creation under concurrent cache activity", format!("thread {}: {}", thread, why));
                        break;
                    }
                }
                Obs::Clear { .. } => sig.str("C"),
                Obs::Write { grid, version, .. } => {
                    sig.str("W");
                    sig.u64(*grid as u64);
                    sig.u64(*version as u64);
                    rec.fault(if *version == 0 { "grid_file_deleted_by_environment_thread" } else { "grid_file_replaced_by_environment_thread" });
                }
            }
        }
        if let Some(p) = panic {
            if !rec.failed() {
                let (inv, msg) = if p.contains("deadlock") {
                    ("I-live", format!("deadlock: {}", p.split(" @ ").next().unwrap_or("")))
                } else if p.contains("exceeded max_steps") {
                    ("I-live", "no progress within the step bound (livelock or unfair spinning on the cache lock)".to_string())
                } else {
                    ("I-safe", format!("a thread panics: {}", p))
                };
                rec.violate(inv, &msg, format!("{} (scheduler {} seed {})", p, plan.scheduler % 2, plan.scheduler_seed));
            }
            // the abandoned coroutines may still hold the grid cache lock (their guards
            // are never dropped): nothing run in this process afterwards can be trusted
            rec.tainted = true;
        }
        let concurrent = plan.threads.len() >= 2 && obs.iter().any(|o| matches!(o, Obs::Clear { .. } | Obs::Write { .. }));
        if concurrent {
            rec.sig(sig.low());
        }
        rec.logf(|| format!("threads={} obs={} sig={}", plan.threads.len(), obs.len(), sig.hex()));
        let _ = util::hash_str;
    }
}
