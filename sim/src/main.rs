//! `sim`: deterministic simulation harness for busstoptaktik/geodesy.
//!
//!   sim run <property> --tier quick|thorough [--seed N] [--workers N] [--root DIR]
//!   sim worker <engine> --tier T --seed N --first K --stride W [--limit L]
//!   sim replay <path> [--quiet]
//!
//! Exit codes: 0 property held on everything explored, 1 violation (with a
//! `VIOLATION property=<id> replay=<path>` line), 2 harness error.

mod alloc;
mod catalog;
mod chunksim;
mod driver;
mod engine;
mod gridcodec;
mod gridsim;
mod kpsim;
mod regmodel;
mod regsim;
mod regthreads;
mod rng;
mod util;

use engine::{Engine, Tier};

#[global_allocator]
static GLOBAL: alloc::Counting = alloc::Counting;

/// Call `$body` with `$E` bound to the engine type named `$name`
#[macro_export]
macro_rules! dispatch {
    ($name:expr, $E:ident => $body:expr) => {
        match $name {
            "chunksim" => {
                type $E = $crate::chunksim::ChunkSim;
                $body
            }
            "gridsim-a" => {
                type $E = $crate::gridsim::GridSimA;
                $body
            }
            "gridsim-b" => {
                type $E = $crate::gridsim::GridSimB;
                $body
            }
            "gridsim-c" => {
                type $E = $crate::gridsim::GridSimC;
                $body
            }
            "kpsim" => {
                type $E = $crate::kpsim::KpSim;
                $body
            }
            "regsim" => {
                type $E = $crate::regsim::RegSim;
                $body
            }
            "regsim-threads" => {
                type $E = $crate::regthreads::RegThreads;
                $body
            }
            other => {
                eprintln!("unknown engine '{}'", other);
                std::process::exit(2)
            }
        }
    };
}

pub fn engines_of(property: &str) -> Vec<&'static str> {
    match property {
        "C02" => vec!["chunksim"],
        "C15" => vec!["gridsim-a", "gridsim-b", "gridsim-c"],
        "C20" => vec!["kpsim"],
        "C18" => vec!["regsim", "regsim-threads"],
        _ => vec![],
    }
}

fn arg_value(args: &[String], key: &str) -> Option<String> {
    args.iter()
        .position(|a| a == key)
        .and_then(|i| args.get(i + 1).cloned())
}

fn main() {
    util::install_panic_hook();
    let args: Vec<String> = std::env::args().collect();
    if args.len() < 3 {
        eprintln!("usage: sim run|worker|replay ...");
        std::process::exit(2);
    }
    let tier = arg_value(&args, "--tier")
        .or_else(|| std::env::var("VERIF_TIER").ok())
        .and_then(|t| Tier::parse(&t))
        .unwrap_or(Tier::Quick);
    let seed: u64 = arg_value(&args, "--seed")
        .or_else(|| std::env::var("VERIF_SEED").ok())
        .and_then(|s| s.trim().parse().ok())
        .unwrap_or(20260927);
    match args[1].as_str() {
        "worker" => {
            let first: u64 = arg_value(&args, "--first").and_then(|s| s.parse().ok()).unwrap_or(0);
            let stride: u64 = arg_value(&args, "--stride").and_then(|s| s.parse().ok()).unwrap_or(1);
            let limit: Option<u64> = arg_value(&args, "--limit").and_then(|s| s.parse().ok());
            let stdout = std::io::stdout();
            let mut out = stdout.lock();
            dispatch!(args[2].as_str(), E => engine::worker::<E>(tier, seed, first, stride.max(1), limit, &mut out));
        }
        "replay" => {
            let quiet = args.iter().any(|a| a == "--quiet");
            std::process::exit(driver::replay_file(&args[2], !quiet));
        }
        "catalog" => {
            // which catalogue definitions instantiate (Plain context, cwd = repository root)
            use geodesy::prelude::*;
            let repo = std::env::var("VERIF_REPO").unwrap_or_else(|_| "/repo".to_string());
            let _ = std::env::set_current_dir(&repo);
            let mut bad = 0;
            for e in catalog::ELEMENTARY.iter().chain(catalog::PIPELINES.iter()) {
                let mut ctx = Plain::new();
                match util::catch(|| ctx.op(e.def)) {
                    Ok(Ok(_)) => {}
                    Ok(Err(err)) => {
                        bad += 1;
                        println!("FAILS  {:60} {}", e.def, err);
                    }
                    Err(p) => {
                        bad += 1;
                        println!("PANICS {:60} {}", e.def, p);
                    }
                }
            }
            println!("{} of {} catalogue definitions do not instantiate", bad, catalog::ELEMENTARY.len() + catalog::PIPELINES.len());
            std::process::exit(if bad == 0 { 0 } else { 1 });
        }
        "replay-exec" => {
            let quiet = args.iter().any(|a| a == "--quiet");
            std::process::exit(driver::replay_exec(&args[2], !quiet));
        }
        "run" => {
            let workers: usize = arg_value(&args, "--workers")
                .or_else(|| std::env::var("VERIF_WORKERS").ok())
                .and_then(|s| s.parse().ok())
                .unwrap_or(16);
            let root = arg_value(&args, "--root").unwrap_or_else(|| "/verif".to_string());
            std::process::exit(driver::run_property(&args[2], tier, seed, workers.max(1), &root));
        }
        other => {
            eprintln!("unknown command '{}'", other);
            std::process::exit(2);
        }
    }
}

#[allow(dead_code)]
fn _assert_engine<E: Engine>() {}
