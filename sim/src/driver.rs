//! The batch driver: fan run indices out to worker processes, cross-check
//! determinism, merge, minimise/confirm violations, write evidence.

use crate::engine::{self, Engine, EngineInfo, ReplayFile, Tier, WorkerReport};
use crate::util::hash_str;
use serde_json::{json, Value};
use std::collections::{BTreeMap, BTreeSet};
use std::io::Read;
use std::path::{Path, PathBuf};
use std::process::{Command, Stdio};

fn engine_info(name: &str) -> EngineInfo {
    crate::dispatch!(name, E => <E as Engine>::info())
}

fn spawn_worker(engine: &str, tier: Tier, seed: u64, first: u64, stride: u64, limit: Option<u64>) -> std::process::Child {
    let exe = std::env::current_exe().expect("current exe");
    let mut cmd = Command::new(exe);
    cmd.arg("worker")
        .arg(engine)
        .arg("--tier")
        .arg(tier.name())
        .arg("--seed")
        .arg(seed.to_string())
        .arg("--first")
        .arg(first.to_string())
        .arg("--stride")
        .arg(stride.to_string());
    if let Some(l) = limit {
        cmd.arg("--limit").arg(l.to_string());
    }
    cmd.env("RUST_BACKTRACE", "0")
        .env_remove("RUST_LOG")
        .stdin(Stdio::null())
        .stdout(Stdio::piped())
        .stderr(Stdio::inherit());
    cmd.spawn().expect("spawn worker")
}

/// What a worker slot (first, stride) produced: the reports of the processes that
/// served it one after the other, and the run indices during which one died
struct Slot {
    reports: Vec<WorkerReport>,
    died: Vec<(u64, String)>,
}

/// Serve one slot to completion: a process that dies (hang, abort) or stops because a
/// run tainted it is succeeded by a fresh process continuing at the next run index
fn serve_slot(engine: String, tier: Tier, seed: u64, first: u64, stride: u64, limit: Option<u64>) -> Result<Slot, String> {
    let mut slot = Slot { reports: Vec::new(), died: Vec::new() };
    let mut first = first;
    let mut restarts = 0;
    for _generation in 0..10_000 {
        let mut child = spawn_worker(&engine, tier, seed, first, stride, limit);
        let pid = child.id();
        let mut text = String::new();
        if let Some(mut out) = child.stdout.take() {
            out.read_to_string(&mut text).map_err(|e| e.to_string())?;
        }
        let status = child.wait().map_err(|e| e.to_string())?;
        let path = engine::current_index_file(pid);
        if status.success() || status.code() == Some(engine::EXIT_TAINTED) {
            let _ = std::fs::remove_file(&path);
            let line = text.lines().last().unwrap_or("");
            let report = serde_json::from_str::<WorkerReport>(line).map_err(|e| format!("bad worker report: {e}"))?;
            let resume = report.resume_at;
            slot.reports.push(report);
            match resume {
                Some(next) => {
                    // a run tainted its process: continue in a fresh one -- but when that
                    // keeps happening the point is made, and every round costs time
                    restarts += 1;
                    if restarts >= 6 {
                        return Ok(slot);
                    }
                    first = next
                }
                None => return Ok(slot),
            }
        } else {
            let index = std::fs::read(&path).ok().and_then(|b| b.get(..8).map(|s| u64::from_le_bytes(s.try_into().unwrap())));
            let _ = std::fs::remove_file(&path);
            let Some(index) = index else {
                return Err(format!("a worker died ({status}) before its first run"));
            };
            slot.died.push((index, format!("{status}")));
            // three deaths in one slot are enough evidence (each hang costs a minute)
            if slot.died.len() >= 3 {
                return Ok(slot);
            }
            // what the dead process had done is lost with it; carry on after the fatal run
            first = index + stride;
        }
    }
    Err("a worker slot needed more than 10000 processes".to_string())
}

struct EngineResult {
    name: String,
    /// runs during which a worker process died: to be classified by replay
    deaths: Vec<ReplayFile>,
    reports: Vec<WorkerReport>,
    determinism_compared: u64,
    determinism_mismatches: Vec<u64>,
}

fn run_engine(engine: &str, tier: Tier, seed: u64, workers: usize) -> Result<EngineResult, String> {
    let det_n: u64 = match tier {
        Tier::Quick => 48,
        Tier::Thorough => 1024,
    };
    // The main batch, plus the same first run indices once more in other processes and
    // another partition; every slot is served by its own thread
    let det_workers = 3u64;
    let mut threads = Vec::new();
    for w in 0..workers {
        let e = engine.to_string();
        threads.push(std::thread::spawn(move || serve_slot(e, tier, seed, w as u64, workers as u64, None)));
    }
    for w in 0..det_workers {
        let e = engine.to_string();
        threads.push(std::thread::spawn(move || serve_slot(e, tier, seed, w, det_workers, Some(det_n))));
    }
    let mut reports = Vec::new();
    let mut det_reports = Vec::new();
    let mut deaths: Vec<ReplayFile> = Vec::new();
    for (k, t) in threads.into_iter().enumerate() {
        let slot = t.join().map_err(|_| "slot thread panicked".to_string())??;
        for (index, how) in slot.died {
            println!("note: engine={} a worker process died ({}) while executing run {}", engine, how, index);
            if !deaths.iter().any(|d| d.run_index == index) {
                let file: ReplayFile = crate::dispatch!(engine, E => engine::plan_of::<E>(tier, seed, index));
                deaths.push(file);
            }
        }
        if k < workers {
            reports.extend(slot.reports);
        } else {
            det_reports.extend(slot.reports);
        }
    }
    let mut main_hashes: BTreeMap<u64, String> = BTreeMap::new();
    for r in &reports {
        for (i, h) in &r.run_hashes {
            main_hashes.insert(*i, h.clone());
        }
    }
    let mut compared = 0;
    let mut mismatches = Vec::new();
    for r in &det_reports {
        for (i, h) in &r.run_hashes {
            if let Some(m) = main_hashes.get(i) {
                compared += 1;
                if m != h {
                    mismatches.push(*i);
                }
            }
        }
    }
    Ok(EngineResult {
        name: engine.to_string(),
        deaths,
        reports,
        determinism_compared: compared,
        determinism_mismatches: mismatches,
    })
}

#[derive(Debug)]
struct Known {
    property: String,
    status: String,
    invariant: String,
    message_contains: String,
    what: String,
}

fn load_known(root: &str) -> Result<Vec<Known>, String> {
    let path = Path::new(root).join("known_findings.json");
    let Ok(text) = std::fs::read_to_string(&path) else {
        return Ok(Vec::new());
    };
    let v: Value = serde_json::from_str(&text).map_err(|e| format!("known_findings.json: {e}"))?;
    let mut out = Vec::new();
    for f in v["findings"].as_array().cloned().unwrap_or_default() {
        out.push(Known {
            property: f["property"].as_str().unwrap_or("").to_string(),
            status: f["status"].as_str().unwrap_or("").to_string(),
            invariant: f["invariant"].as_str().unwrap_or("").to_string(),
            message_contains: f["message_contains"].as_str().unwrap_or("").to_string(),
            what: f["what"].as_str().unwrap_or("").to_string(),
        });
    }
    Ok(out)
}

fn known_match<'a>(known: &'a [Known], file: &ReplayFile) -> Option<&'a Known> {
    // class = property|invariant|message
    let mut parts = file.class.splitn(3, '|');
    let property = parts.next().unwrap_or("");
    let invariant = parts.next().unwrap_or("");
    let message = parts.next().unwrap_or("");
    known.iter().find(|k| {
        k.status == "open"
            && k.property == property
            && k.invariant == invariant
            && !k.message_contains.is_empty()
            && message.contains(&k.message_contains)
    })
}

fn load_replay(path: &str) -> Result<ReplayFile, String> {
    let text = std::fs::read_to_string(path).map_err(|e| format!("cannot read {path}: {e}"))?;
    serde_json::from_str(&text).map_err(|e| format!("cannot parse {path}: {e}"))
}

/// Execute the plan in *this* process (child side of `replay`)
pub fn replay_exec(path: &str, verbose: bool) -> i32 {
    let file = match load_replay(path) {
        Ok(f) => f,
        Err(e) => {
            eprintln!("{e}");
            return 2;
        }
    };
    engine::start_watchdog();
    let violation = crate::dispatch!(file.engine.as_str(), E => engine::replay::<E>(&file, verbose));
    match violation {
        Some(v) => {
            println!("class={}", v.class());
            println!("detail: {}", v.detail);
            println!("VIOLATION property={} replay={}", v.property, path);
            1
        }
        None => {
            println!("no violation on replay");
            0
        }
    }
}

/// Replay in a fresh child process, so that a crash or hang of the code under test
/// is an observation, not the end of the replay command
pub fn replay_file(path: &str, verbose: bool) -> i32 {
    let file = match load_replay(path) {
        Ok(f) => f,
        Err(e) => {
            eprintln!("{e}");
            return 2;
        }
    };
    println!("replaying engine={} property={} run_seed={} recorded class={}", file.engine, file.property, file.run_seed, file.class);
    let mut cmd = Command::new(std::env::current_exe().expect("exe"));
    cmd.arg("replay-exec").arg(path);
    if !verbose {
        cmd.arg("--quiet");
    }
    let status = cmd.env("RUST_BACKTRACE", "0").status();
    match status {
        Ok(st) => match st.code() {
            Some(c @ 0..=2) => c,
            Some(engine::EXIT_HANG) => {
                println!("class={}|{}", file.property, engine::CLASS_HANG);
                println!("VIOLATION property={} replay={}", file.property, path);
                1
            }
            _ => {
                println!("class={}|{}", file.property, engine::CLASS_ABORT);
                println!("detail: child ended with {st}");
                println!("VIOLATION property={} replay={}", file.property, path);
                1
            }
        },
        Err(e) => {
            eprintln!("cannot spawn replay child: {e}");
            2
        }
    }
}

/// Run `sim replay` on a file; the class it reports, if it reports a violation
fn confirm(path: &Path) -> Option<String> {
    let out = Command::new(std::env::current_exe().expect("exe"))
        .arg("replay")
        .arg(path)
        .arg("--quiet")
        .env("RUST_BACKTRACE", "0")
        .stderr(Stdio::null())
        .output()
        .ok()?;
    if out.status.code() != Some(1) {
        return None;
    }
    let text = String::from_utf8_lossy(&out.stdout).to_string();
    text.lines().find_map(|l| l.strip_prefix("class=").map(|c| c.to_string()))
}

/// Scan /repo/src for nondeterminism sources; the expected set is listed in DESIGN.md §1
fn scan_sources(repo: &str) -> Vec<String> {
    let tokens = [
        "unsafe ", "static mut", "RefCell", "Cell<", "Atomic", "thread_local", "Mutex", "RwLock", "OnceLock", "std::thread", "Instant", "SystemTime", "rand::",
    ];
    let mut hits = BTreeSet::new();
    fn walk(dir: &Path, files: &mut Vec<PathBuf>) {
        if let Ok(rd) = std::fs::read_dir(dir) {
            for e in rd.flatten() {
                let p = e.path();
                if p.is_dir() {
                    walk(&p, files);
                } else if p.extension().map(|x| x == "rs").unwrap_or(false) {
                    files.push(p);
                }
            }
        }
    }
    let mut files = Vec::new();
    walk(&Path::new(repo).join("src"), &mut files);
    files.sort();
    for f in files {
        if f.ends_with("verif_seam.rs") {
            continue;
        }
        let Ok(text) = std::fs::read_to_string(&f) else { continue };
        for line in text.lines() {
            let code = line.split("//").next().unwrap_or("");
            for t in tokens {
                if code.contains(t) {
                    let rel = f.strip_prefix(repo).unwrap_or(&f).display().to_string();
                    hits.insert(format!("{}: {}", rel.trim_start_matches('/'), t.trim()));
                }
            }
        }
    }
    hits.into_iter().collect()
}

/// Scratch trees and marker files of processes that no longer exist (killed, watchdog)
fn remove_stale_scratch() {
    let Ok(rd) = std::fs::read_dir(crate::util::scratch_base()) else { return };
    for e in rd.flatten() {
        let name = e.file_name().to_string_lossy().to_string();
        let pid = match name.strip_prefix("probe-") {
            Some(rest) => rest.split('-').next().and_then(|p| p.parse::<u32>().ok()),
            None => name.rsplit('-').next().and_then(|p| p.parse::<u32>().ok()),
        };
        let Some(pid) = pid else { continue };
        if !Path::new(&format!("/proc/{}", pid)).exists() {
            crate::util::remove_any(&e.path());
        }
    }
}

pub fn run_property(property: &str, tier: Tier, seed: u64, workers: usize, root: &str) -> i32 {
    let started = std::time::Instant::now();
    remove_stale_scratch();
    let engines = crate::engines_of(property);
    if engines.is_empty() {
        eprintln!("no engine serves property '{property}'");
        return 2;
    }
    let known = match load_known(root) {
        Ok(k) => k,
        Err(e) => {
            eprintln!("HARNESS-ERROR {e}");
            return 2;
        }
    };
    let repo = std::env::var("VERIF_REPO").unwrap_or_else(|_| "/repo".to_string());
    println!("property={} tier={} seed={} workers={}", property, tier.name(), seed, workers);

    let mut results = Vec::new();
    for e in &engines {
        let t0 = std::time::Instant::now();
        match run_engine(e, tier, seed, workers) {
            Ok(r) => {
                let runs: u64 = r.reports.iter().map(|w| w.runs).sum();
                println!("engine={} runs={} wall={:.1}s determinism_compared={} mismatches={}", e, runs, t0.elapsed().as_secs_f64(), r.determinism_compared, r.determinism_mismatches.len());
                results.push(r);
            }
            Err(msg) => {
                println!("HARNESS-ERROR engine={} {}", e, msg);
                return 2;
            }
        }
    }

    let mut harness_error = false;
    let mut exit_violation = false;
    let mut per_engine = serde_json::Map::new();
    let mut total_runs = 0u64;
    let mut total_events = 0u64;
    let mut total_distinct = 0u64;
    let mut total_violating = 0u64;
    let mut faults_all: BTreeMap<String, u64> = BTreeMap::new();
    let mut probes_all: BTreeMap<String, u64> = BTreeMap::new();
    let mut samples: Vec<Value> = Vec::new();
    let mut rules: Vec<String> = Vec::new();
    let mut assumptions: BTreeSet<String> = BTreeSet::new();
    let mut real: BTreeSet<String> = BTreeSet::new();
    let mut simulated: BTreeSet<String> = BTreeSet::new();
    let mut exhaustive_all = true;
    let mut known_lines: BTreeSet<String> = BTreeSet::new();
    let mut violation_lines: Vec<String> = Vec::new();
    let mut reported = 0i64;

    for r in &results {
        let info = engine_info(&r.name);
        let mut runs = 0u64;
        let mut events = 0u64;
        let mut fault_free = 0u64;
        let mut fold = 0u64;
        let mut busy = 0f64;
        let mut faults: BTreeMap<String, u64> = BTreeMap::new();
        let mut probes: BTreeMap<String, u64> = BTreeMap::new();
        let mut tolerated: BTreeMap<String, u64> = BTreeMap::new();
        let mut sigs: BTreeSet<u64> = BTreeSet::new();
        let mut violations: Vec<ReplayFile> = Vec::new();
        let mut violating = 0u64;
        // merge in worker order (worker k handled indices k, k+W, ...): independent of timing
        for w in &r.reports {
            runs += w.runs;
            events += w.events;
            fault_free += w.fault_free_runs;
            fold = fold.wrapping_add(w.hash_fold);
            busy += w.busy_s;
            violating += w.violating_runs;
            for (k, v) in &w.faults {
                *faults.entry(k.clone()).or_insert(0) += v;
            }
            for (k, v) in &w.probes {
                *probes.entry(k.clone()).or_insert(0) += v;
            }
            for (k, v) in &w.tolerated {
                *tolerated.entry(k.clone()).or_insert(0) += v;
            }
            sigs.extend(w.sigs.iter().copied());
            violations.extend(w.violations.iter().cloned());
            for s in &w.samples {
                if samples.len() < 6 {
                    samples.push(json!({"engine": r.name, "case": s}));
                }
            }
        }
        if !r.determinism_mismatches.is_empty() {
            println!("HARNESS-ERROR engine={} nondeterministic: run indices {:?} gave different logs in a second process", r.name, &r.determinism_mismatches[..r.determinism_mismatches.len().min(8)]);
            harness_error = true;
        }
        // probes that must fire
        for p in info.required_probes {
            probes.entry(p.to_string()).or_insert(0);
        }
        let dead: Vec<&str> = info
            .required_probes
            .iter()
            .copied()
            .filter(|p| probes.get(*p).copied().unwrap_or(0) == 0)
            .collect();
        if !dead.is_empty() {
            println!("note: engine={} probes at zero: {:?}", r.name, dead);
            if tier == Tier::Thorough {
                println!("HARNESS-ERROR engine={} required probes never fired in the thorough tier: {:?}", r.name, dead);
                harness_error = true;
            }
        }

        // runs in which a worker died: classify by replaying them in a fresh process
        for d in &r.deaths {
            let dir = Path::new(root).join("replays");
            let _ = std::fs::create_dir_all(&dir);
            let tmp = dir.join(format!("{}-{}-death-run{}.json", d.property, d.engine, d.run_index));
            let _ = std::fs::write(&tmp, serde_json::to_string_pretty(d).unwrap_or_default());
            match confirm(&tmp) {
                Some(class) => {
                    let mut d2 = d.clone();
                    d2.class = class;
                    d2.detail = format!("worker process died during run {}; classified by replay", d.run_index);
                    violations.push(d2);
                    violating += 1;
                }
                None => {
                    println!("HARNESS-ERROR engine={} a worker died during run {} but replaying that run shows nothing ({})", r.name, d.run_index, tmp.display());
                    harness_error = true;
                }
            }
            let _ = std::fs::remove_file(&tmp);
        }

        // violations: one per class, smallest plan first
        violations.sort_by(|a, b| (a.class.clone(), a.minimised_size, a.run_index).cmp(&(b.class.clone(), b.minimised_size, b.run_index)));
        let mut seen = BTreeSet::new();
        let mut classes_json = Vec::new();
        for v in &violations {
            if !seen.insert(v.class.clone()) {
                continue;
            }
            if let Some(k) = known_match(&known, v) {
                known_lines.insert(format!("KNOWN-FINDING: property={} {}", k.property, k.what));
                classes_json.push(json!({"class": v.class, "known_finding": k.what}));
                continue;
            }
            if v.class.contains("HARNESS-PANIC") {
                println!("HARNESS-ERROR engine={} harness panic: {}", r.name, v.detail);
                harness_error = true;
                continue;
            }
            // write, then confirm in a fresh process
            let dir = Path::new(root).join("replays");
            let _ = std::fs::create_dir_all(&dir);
            let name = format!("{}-{}-{:016x}.json", v.property, v.engine, hash_str(&v.class));
            let path = dir.join(name);
            let text = serde_json::to_string_pretty(v).unwrap_or_default();
            if let Err(e) = std::fs::write(&path, text) {
                println!("HARNESS-ERROR cannot write {}: {e}", path.display());
                harness_error = true;
                continue;
            }
            let confirmed = confirm(&path).as_deref() == Some(v.class.as_str());
            if !confirmed {
                println!("HARNESS-ERROR engine={} violation did not reproduce in a fresh process: {} ({})", r.name, v.class, path.display());
                harness_error = true;
                continue;
            }
            reported += 1;
            exit_violation = true;
            println!("violation class: {}", v.class);
            println!("  detail: {}", v.detail);
            println!("  found at run {} (run seed {}), plan size {} minimised to {} in {} executions", v.run_index, v.run_seed, v.original_size, v.minimised_size, v.shrink_executions);
            violation_lines.push(format!("VIOLATION property={} replay={}", v.property, path.display()));
            classes_json.push(json!({"class": v.class, "replay": path.display().to_string(), "detail": v.detail}));
        }

        let nontrivial = sigs.len() as u64;
        total_runs += runs;
        total_events += events;
        total_distinct += nontrivial;
        total_violating += violating;
        for (k, v) in &faults {
            *faults_all.entry(format!("{}:{}", r.name, k)).or_insert(0) += v;
        }
        for (k, v) in &probes {
            *probes_all.entry(format!("{}:{}", r.name, k)).or_insert(0) += v;
        }
        rules.push(info.rule.to_string());
        for a in info.assumptions {
            assumptions.insert(a.to_string());
        }
        for a in info.real_components {
            real.insert(a.to_string());
        }
        for a in info.simulated_components {
            simulated.insert(a.to_string());
        }
        exhaustive_all &= info.exhaustive;
        let wall = started.elapsed().as_secs_f64().max(1e-9);
        per_engine.insert(
            r.name.clone(),
            json!({
                "runs": runs,
                "simulated_events": events,
                "fault_free_runs": fault_free,
                "fault_injecting_runs": runs - fault_free,
                "faults_fired": faults,
                "reach_probes": probes,
                "tolerated_not_reported": tolerated,
                "distinct_signatures": nontrivial,
                "distinct_signatures_counting": if engine::sig_sample_mask(runs) == 0 { "exact" } else { "lower bound: only signatures whose hash has four low zero bits (1/16 sample) are kept and counted" },
                "violating_runs": violating,
                "violation_classes": classes_json,
                "log_hash_fold": format!("{:016x}", fold),
                "determinism": {"runs_reexecuted_in_other_processes": r.determinism_compared, "mismatches": r.determinism_mismatches.len()},
                "worker_busy_s": (busy * 10.0).round() / 10.0,
                "runs_per_hour_at_this_worker_count": ((runs as f64) * 3600.0 / wall) as u64,
                "exhaustive": info.exhaustive,
            }),
        );
    }

    let nondet_sources = scan_sources(&repo);
    let wall = started.elapsed().as_secs_f64();
    let level = if property == "C15" { "fault_enumeration" } else { "exploration" };
    let mut assumption_list: Vec<String> = assumptions.into_iter().collect();
    assumption_list.push(format!("nondeterminism/shared-state tokens seen in {}/src (expected: Mutex/OnceLock in context/plain.rs, Instant in bin/kp.rs): {:?}", repo, nondet_sources));
    let evidence = json!({
        "property_id": property,
        "tier": tier.name(),
        "seed": seed,
        "level": level,
        "coverage": {
            "evaluations": total_runs,
            "distinct_nontrivial": total_distinct,
            "rule": rules.join(" || "),
            "samples": samples,
            "exhaustive": exhaustive_all,
            "simulated_events_logical_time": total_events,
            "simulated_clock": "none: the code under test has no timer, deadline or timeout; logical time is the event counter",
            "faults_fired": faults_all,
            "reach_probes": probes_all,
            "engines": Value::Object(per_engine),
            "components_real": real.into_iter().collect::<Vec<_>>(),
            "components_simulated": simulated.into_iter().collect::<Vec<_>>(),
            "runs_per_hour": ((total_runs as f64) * 3600.0 / wall.max(1e-9)) as u64,
            "workers": workers,
            "violating_runs": total_violating,
            "known_findings_hit": known_lines.iter().cloned().collect::<Vec<_>>(),
        },
        "assumptions": assumption_list,
        "wall_s": (wall * 100.0).round() / 100.0,
        "violations": reported,
    });
    let evidence_dir = Path::new(root).join("evidence");
    let _ = std::fs::create_dir_all(&evidence_dir);
    let evidence_path = evidence_dir.join(format!("{}.json", property));
    if let Err(e) = std::fs::write(&evidence_path, serde_json::to_string_pretty(&evidence).unwrap_or_default() + "\n") {
        println!("HARNESS-ERROR cannot write evidence: {e}");
        harness_error = true;
    }
    for l in &known_lines {
        println!("{}", l);
    }
    println!("runs={} events={} distinct_nontrivial={} violating_runs={} wall={:.1}s evidence={}", total_runs, total_events, total_distinct, total_violating, wall, evidence_path.display());
    // a violation confirmed by replay in a fresh process stands, whatever else went wrong
    if exit_violation {
        for l in &violation_lines {
            println!("{}", l);
        }
        return 1;
    }
    if harness_error {
        return 2;
    }
    println!("OK property={} held on everything explored", property);
    0
}
