//! The harness's own *encoders* for the two grid formats (written from the format
//! descriptions, not from the library's decoders), a small reader for the ASCII
//! (.gsa) rendering of NTv2, and the model of what a decoded grid must answer.

use crate::rng::Rng;
use serde::{Deserialize, Serialize};

// ----- Gravsoft ---------------------------------------------------------------------

#[derive(Serialize, Deserialize, Clone, Debug)]
pub struct GravsoftSpec {
    /// geographic (degrees, converted by the reader) or projected (metres, |bound| > 720)
    pub projected: bool,
    pub lat_s: f64,
    pub lat_n: f64,
    pub lon_w: f64,
    pub lon_e: f64,
    pub dlat: f64,
    pub dlon: f64,
    pub rows: usize,
    pub cols: usize,
    pub bands: usize,
    /// values as written in the file: row-major from the north-west corner, bands
    /// interleaved per node in file order (lat/north first for 2 and 3 bands)
    pub values: Vec<f64>,
    pub layout_seed: u64,
}

impl GravsoftSpec {
    pub fn generate(rng: &mut Rng) -> GravsoftSpec {
        let projected = rng.chance(0.25);
        // mostly small; now and then large enough to cross any internal block size
        let (rows, cols) = if rng.chance(0.006) { (2 + rng.below(150), 2 + rng.below(150)) } else { (2 + rng.below(6), 2 + rng.below(7)) };
        let bands = 1 + rng.below(3);
        // steps and bounds exactly representable (multiples of 1/8)
        let (dlat, dlon, lat_s, lon_w) = if projected {
            (
                1000.0 * (1 + rng.below(20)) as f64,
                1000.0 * (1 + rng.below(20)) as f64,
                100_000.0 * rng.range(1, 60) as f64,
                100_000.0 * rng.range(1, 8) as f64,
            )
        } else {
            // steps include decimal fractions that are not exact in binary, and dense
            // grids far from the origin (large coordinate/step ratios)
            (
                *rng.pick(&[0.125, 0.25, 0.5, 1.0, 2.0, 0.01, 0.02, 0.05, 0.1, 1.0 / 60.0, 1.0 / 120.0, 0.2]),
                *rng.pick(&[0.125, 0.25, 0.5, 1.0, 2.0, 0.01, 0.02, 0.05, 0.1, 1.0 / 60.0, 1.0 / 120.0, 0.3]),
                rng.range(-60, 60) as f64 + *rng.pick(&[0.0, 0.5, 0.25, 0.3, 0.17]),
                rng.range(-150, 150) as f64 + *rng.pick(&[0.0, 0.5, 0.25, 0.2, 0.93]),
            )
        };
        let lat_n = lat_s + dlat * (rows - 1) as f64;
        let lon_e = lon_w + dlon * (cols - 1) as f64;
        let mut values = Vec::with_capacity(rows * cols * bands);
        for _ in 0..rows * cols * bands {
            // exactly representable in f32, of sensible magnitude
            values.push(rng.range(-4000, 4000) as f64 / 8.0);
        }
        GravsoftSpec {
            projected,
            lat_s,
            lat_n,
            lon_w,
            lon_e,
            dlat,
            dlon,
            rows,
            cols,
            bands,
            values,
            layout_seed: rng.next_u64(),
        }
    }

    /// A constant-valued one band grid in projected units with wide coverage:
    /// `gridshift` then subtracts exactly `value` from the height
    pub fn constant_geoid(value: f64) -> GravsoftSpec {
        GravsoftSpec {
            projected: true,
            lat_s: -10000.0,
            lat_n: 10000.0,
            lon_w: -10000.0,
            lon_e: 10000.0,
            dlat: 10000.0,
            dlon: 10000.0,
            rows: 3,
            cols: 3,
            bands: 1,
            values: vec![value; 9],
            layout_seed: 1,
        }
    }

    fn number(rng: &mut Rng, v: f64) -> String {
        let plain = if v == v.trunc() && v.abs() < 1e15 {
            match rng.below(4) {
                0 => format!("{}", v as i64),
                1 => format!("{}.", v as i64),
                2 => format!("{:.1}", v),
                _ => format!("{:.3}", v),
            }
        } else {
            format!("{}", v)
        };
        if v >= 0.0 && rng.chance(0.1) {
            format!("+{}", plain)
        } else if rng.chance(0.05) {
            format!("{:e}", v)
        } else {
            plain
        }
    }

    /// Render with a seeded layout: arbitrary whitespace, line breaks, comments
    pub fn encode(&self) -> Vec<u8> {
        let mut rng = Rng::new(self.layout_seed);
        let style = rng.below(4); // 0 canonical, 1 one number per line, 2 wild, 3 windows line ends
        let mut out = String::new();
        let eol = if style == 3 { "\r\n" } else { "\n" };
        if rng.chance(0.4) {
            out.push_str("# generated grid");
            out.push_str(eol);
        }
        let header = [self.lat_s, self.lat_n, self.lon_w, self.lon_e, self.dlat, self.dlon];
        let mut count = 0usize;
        let mut emit = |out: &mut String, rng: &mut Rng, v: f64, end_of_row: bool| {
            out.push_str(&Self::number(rng, v));
            count += 1;
            match style {
                1 => out.push_str(eol),
                2 => {
                    match rng.below(6) {
                        0 => out.push_str(eol),
                        1 => out.push('\t'),
                        2 => out.push_str("   "),
                        3 => {
                            // a comment runs from '#' to the end of the line, whether or
                            // not it is set off from the number by a blank
                            out.push_str(match rng.below(3) {
                                0 => "#c",
                                1 => "# several words, 1 2 3 ",
                                _ => " # c",
                            });
                            out.push_str(&count.to_string());
                            out.push_str(eol);
                        }
                        4 => {
                            out.push_str(eol);
                            out.push_str(eol);
                            out.push_str("  ");
                        }
                        5 if rng.chance(0.3) => {
                            // any white space separates numbers: vertical tab, form feed,
                            // no-break space, NEL, thin space, ideographic space
                            out.push_str(*rng.pick(&["\u{b}", "\u{c}", "\u{a0}", "\u{85}", "\u{2009}", "\u{3000}"]));
                        }
                        _ => out.push(' '),
                    };
                }
                _ => {
                    if end_of_row {
                        out.push_str(eol);
                    } else {
                        out.push_str("  ");
                    }
                }
            }
        };
        for (i, h) in header.iter().enumerate() {
            emit(&mut out, &mut rng, *h, i == 5);
        }
        // the header usually sits on a line of its own, but the format is free: in the
        // wild layout the first node values may share the line of the sixth header number
        if style != 1 && !(style == 2 && rng.chance(0.5)) {
            out.push_str(eol);
        }
        let per_row = self.cols * self.bands;
        for (i, v) in self.values.iter().enumerate() {
            emit(&mut out, &mut rng, *v, (i + 1) % per_row == 0);
        }
        if rng.chance(0.3) {
            out.push_str("# end");
            if rng.chance(0.5) {
                out.push_str(eol);
            }
        } else if !out.ends_with('\n') && rng.chance(0.7) {
            out.push_str(eol);
        }
        out.into_bytes()
    }

    /// Position of node (row from north, col from west) in the units `Grid::at` expects
    pub fn node_position(&self, row: usize, col: usize) -> (f64, f64) {
        let lat = self.lat_n - row as f64 * self.dlat;
        let lon = self.lon_w + col as f64 * self.dlon;
        if self.projected {
            (lon, lat)
        } else {
            (lon.to_radians(), lat.to_radians())
        }
    }

    /// What `Grid::at` must deliver at that node, per band, after the documented
    /// order and unit conventions
    pub fn node_expectation(&self, row: usize, col: usize) -> Vec<f64> {
        let base = (row * self.cols + col) * self.bands;
        let v = &self.values[base..base + self.bands];
        if self.projected {
            return v.to_vec();
        }
        match self.bands {
            1 => vec![v[0]],
            // file: lat, lon in seconds of arc -> lon, lat in radians
            2 => vec![(v[1] / 3600.0).to_radians(), (v[0] / 3600.0).to_radians()],
            // file: north, east, up in mm/year -> east, north, up in m/year
            _ => vec![v[1] / 1000.0, v[0] / 1000.0, v[2] / 1000.0],
        }
    }

    pub fn cell(&self) -> (f64, f64) {
        if self.projected {
            (self.dlon, self.dlat)
        } else {
            (self.dlon.to_radians(), self.dlat.to_radians())
        }
    }
}

// ----- NTv2 -------------------------------------------------------------------------

#[derive(Serialize, Deserialize, Clone, Debug)]
pub struct SubGridSpec {
    pub name: String,
    pub parent: String,
    /// all in seconds of arc; longitudes positive WEST as the format prescribes
    pub s_lat: f64,
    pub n_lat: f64,
    pub e_long: f64,
    pub w_long: f64,
    pub lat_inc: f64,
    pub long_inc: f64,
    pub rows: usize,
    pub cols: usize,
    /// (lat shift, lon shift) seconds, lon positive west; file order: from the
    /// south-east corner, westwards, then northwards
    pub nodes: Vec<(f32, f32)>,
}

#[derive(Serialize, Deserialize, Clone, Debug)]
pub struct Ntv2Spec {
    pub big_endian: bool,
    pub subgrids: Vec<SubGridSpec>,
    /// what the purely descriptive text fields (VERSION, SYSTEM_F, SYSTEM_T, CREATED,
    /// UPDATED) hold: 0 plain ASCII, 1 Latin-1 bytes (not valid UTF-8), 2 multi-byte
    /// UTF-8 cut by the field width, 3 zero bytes. No reader needs them.
    /// Bits 2..3: how SUB_NAME and PARENT sit in their 8 byte fields (0 left-justified,
    /// 1 both right-justified, 2 PARENT right-justified only, 3 SUB_NAME indented by one
    /// blank): labels are blank padded text, compared without the padding.
    #[serde(default)]
    pub meta: u8,
}

fn put_i32(out: &mut Vec<u8>, key: &str, v: i32, be: bool) {
    out.extend_from_slice(format!("{:<8}", key).as_bytes());
    if be {
        out.extend_from_slice(&v.to_be_bytes());
    } else {
        out.extend_from_slice(&v.to_le_bytes());
    }
    out.extend_from_slice(&[0, 0, 0, 0]);
}
fn put_f64(out: &mut Vec<u8>, key: &str, v: f64, be: bool) {
    out.extend_from_slice(format!("{:<8}", key).as_bytes());
    if be {
        out.extend_from_slice(&v.to_be_bytes());
    } else {
        out.extend_from_slice(&v.to_le_bytes());
    }
}
fn put_str(out: &mut Vec<u8>, key: &str, v: &str) {
    out.extend_from_slice(format!("{:<8}", key).as_bytes());
    let mut s = format!("{:<8}", v);
    s.truncate(8);
    out.extend_from_slice(s.as_bytes());
}
fn put_label(out: &mut Vec<u8>, key: &str, v: &str, style: u8) {
    out.extend_from_slice(format!("{:<8}", key).as_bytes());
    let mut s = match style {
        1 => format!("{:>8}", v),
        2 => format!(" {:<7}", v),
        _ => format!("{:<8}", v),
    };
    s.truncate(8);
    out.extend_from_slice(s.as_bytes());
}
fn put_raw(out: &mut Vec<u8>, key: &str, v: &[u8]) {
    out.extend_from_slice(format!("{:<8}", key).as_bytes());
    let mut field = [b' '; 8];
    for (i, b) in v.iter().take(8).enumerate() {
        field[i] = *b;
    }
    out.extend_from_slice(&field);
}
fn put_f32(out: &mut Vec<u8>, v: f32, be: bool) {
    if be {
        out.extend_from_slice(&v.to_be_bytes());
    } else {
        out.extend_from_slice(&v.to_le_bytes());
    }
}

impl Ntv2Spec {
    pub fn encode(&self) -> Vec<u8> {
        let be = self.big_endian;
        let mut out = Vec::new();
        put_i32(&mut out, "NUM_OREC", 11, be);
        put_i32(&mut out, "NUM_SREC", 11, be);
        put_i32(&mut out, "NUM_FILE", self.subgrids.len() as i32, be);
        put_str(&mut out, "GS_TYPE", "SECONDS");
        let (from, to): (&[u8], &[u8]) = match self.meta % 4 {
            0 => (b"FROM", b"TO"),
            1 => (b"M\xc9XICO", b"ESPA\xd1A"),
            2 => ("ETRS89\u{20ac}".as_bytes(), "D\u{e4}nemark".as_bytes()),
            _ => (&[0u8; 8], &[0u8; 8]),
        };
        put_str(&mut out, "VERSION", "SIM");
        put_raw(&mut out, "SYSTEM_F", from);
        put_raw(&mut out, "SYSTEM_T", to);
        put_f64(&mut out, "MAJOR_F", 6378388.0, be);
        put_f64(&mut out, "MINOR_F", 6356911.946127946, be);
        put_f64(&mut out, "MAJOR_T", 6378137.0, be);
        put_f64(&mut out, "MINOR_T", 6356752.314140356, be);
        for g in &self.subgrids {
            let (name_style, parent_style) = match (self.meta / 4) % 4 {
                0 => (0, 0),
                1 => (1, 1),
                2 => (0, 1),
                _ => (2, 0),
            };
            put_label(&mut out, "SUB_NAME", &g.name, name_style);
            put_label(&mut out, "PARENT", &g.parent, parent_style);
            put_raw(&mut out, "CREATED", if self.meta % 4 == 1 { b"ao\xfbt 26" } else { b"20260927" });
            put_str(&mut out, "UPDATED", "20260927");
            put_f64(&mut out, "S_LAT", g.s_lat, be);
            put_f64(&mut out, "N_LAT", g.n_lat, be);
            put_f64(&mut out, "E_LONG", g.e_long, be);
            put_f64(&mut out, "W_LONG", g.w_long, be);
            put_f64(&mut out, "LAT_INC", g.lat_inc, be);
            put_f64(&mut out, "LONG_INC", g.long_inc, be);
            put_i32(&mut out, "GS_COUNT", g.nodes.len() as i32, be);
            for (lat, lon) in &g.nodes {
                put_f32(&mut out, *lat, be);
                put_f32(&mut out, *lon, be);
                put_f32(&mut out, 0.0, be);
                put_f32(&mut out, 0.0, be);
            }
        }
        // the customary END record; readers must not depend on it
        out.extend_from_slice(b"END     ");
        out.extend_from_slice(&[0u8; 8]);
        out
    }

    fn gen_subgrid(rng: &mut Rng, name: &str, parent: &str, s_lat: f64, w_east_deg_sec: f64, rows: usize, cols: usize, lat_inc: f64, long_inc: f64) -> SubGridSpec {
        // w_east_deg_sec: western edge in seconds, EAST positive; convert to west positive
        let n_lat = s_lat + lat_inc * (rows - 1) as f64;
        let e_east = w_east_deg_sec + long_inc * (cols - 1) as f64;
        let mut nodes = Vec::with_capacity(rows * cols);
        for _ in 0..rows * cols {
            nodes.push((rng.range(-400, 400) as f32 / 8.0, rng.range(-400, 400) as f32 / 8.0));
        }
        SubGridSpec {
            name: name.to_string(),
            parent: parent.to_string(),
            s_lat,
            n_lat,
            e_long: -e_east,
            w_long: -w_east_deg_sec,
            lat_inc,
            long_inc,
            rows,
            cols,
            nodes,
        }
    }

    /// 1..3 base grids, each possibly with children strictly inside, possibly a
    /// grandchild; file order shuffled
    pub fn generate(rng: &mut Rng) -> Ntv2Spec {
        let big_endian = rng.chance(0.5);
        let mut subgrids = Vec::new();
        let bases = 1 + rng.below(3);
        for b in 0..bases {
            let (rows, cols) = if rng.chance(0.006) { (4 + rng.below(90), 4 + rng.below(90)) } else { (4 + rng.below(5), 4 + rng.below(5)) };
            // one degree cells, or dense grids (large coordinate/step ratios); always a
            // multiple of 4 seconds so that children at inc/2 and inc/4 stay exact
            let inc = if rows > 9 || cols > 9 { *rng.pick(&[300.0, 60.0, 120.0, 40.0]) } else { *rng.pick(&[3600.0, 3600.0, 1800.0, 300.0, 60.0, 120.0, 40.0]) };
            // bases side by side, separated by a gap, so that they never overlap
            let s_lat = 3600.0 * rng.range(-60, 50) as f64 + inc * rng.range(0, 7) as f64;
            // (at most 8 columns of at most one degree within a 50 degree slot)
            let mut w = 3600.0 * (-170.0 + 50.0 * b as f64 + rng.range(0, 30) as f64) + inc * rng.range(0, 5) as f64;
            // a grid crossing, or lying entirely beyond, the antimeridian (longitudes are
            // plain numbers in the file: 174E..186E is written as such)
            if b == 0 && rng.chance(0.08) {
                w = 3600.0 * *rng.pick(&[174.0, 178.0, 182.0, -186.0, -200.0]);
            }
            let base_name = format!("B{}", b);
            // latitude and longitude increments need not be equal
            let jl = inc * *rng.pick(&[1.0, 1.0, 2.0, 0.5]);
            let base = Self::gen_subgrid(rng, &base_name, "NONE", s_lat, w, rows, cols, inc, jl);
            if rng.chance(0.6) {
                // child covering interior cells [1..rows-2] x [1..cols-2], half the spacing
                let c_rows = 2 * (rows - 3) + 1;
                let c_cols = 2 * (cols - 3) + 1;
                let child_name = format!("C{}", b);
                // two adjacent siblings sharing an edge instead of one child, now and then:
                // by the NTv2 rule the shared edge belongs to the sibling for which it is
                // the lower (southern / western) limit
                if rng.chance(0.3) && c_cols >= 5 && c_rows >= 5 {
                    let (h, hl) = (inc / 2.0, jl / 2.0);
                    if rng.chance(0.5) {
                        let k = 1 + rng.below(c_cols - 2); // cells in the western sibling
                        let west = Self::gen_subgrid(rng, &format!("W{}", b), &base_name, s_lat + inc, w + jl, c_rows, k + 1, h, hl);
                        let east = Self::gen_subgrid(rng, &format!("E{}", b), &base_name, s_lat + inc, w + jl + k as f64 * hl, c_rows, c_cols - k, h, hl);
                        subgrids.push(west);
                        subgrids.push(east);
                    } else {
                        let k = 1 + rng.below(c_rows - 2); // cells in the southern sibling
                        let south = Self::gen_subgrid(rng, &format!("S{}", b), &base_name, s_lat + inc, w + jl, k + 1, c_cols, h, hl);
                        let north = Self::gen_subgrid(rng, &format!("N{}", b), &base_name, s_lat + inc + k as f64 * h, w + jl, c_rows - k, c_cols, h, hl);
                        subgrids.push(south);
                        subgrids.push(north);
                    }
                    subgrids.push(base);
                    continue;
                }
                let child = Self::gen_subgrid(rng, &child_name, &base_name, s_lat + inc, w + jl, c_rows, c_cols, inc / 2.0, jl / 2.0);
                if rng.chance(0.4) && c_rows >= 5 && c_cols >= 5 {
                    let g_rows = 2 * (c_rows - 3) + 1;
                    let g_cols = 2 * (c_cols - 3) + 1;
                    let g = Self::gen_subgrid(rng, &format!("G{}", b), &child_name, s_lat + inc + inc / 2.0, w + jl + jl / 2.0, g_rows, g_cols, inc / 4.0, jl / 4.0);
                    subgrids.push(g);
                }
                subgrids.push(child);
            }
            subgrids.push(base);
        }
        rng.shuffle(&mut subgrids);
        let text = if rng.chance(0.3) { 1 + rng.below(3) as u8 } else { 0 };
        // (drawn from a copy of the generator: adding this choice left every plan of the
        // earlier engine versions as it was)
        let mut side = rng.clone();
        let labels = if side.chance(0.15) { 1 + side.below(3) as u8 } else { 0 };
        Ntv2Spec { big_endian, subgrids, meta: text + 4 * labels }
    }

    /// A single base grid with constant shifts and wide coverage
    pub fn constant(lat_shift: f32, lon_shift_east: f32, big_endian: bool) -> Ntv2Spec {
        let rows = 5;
        let cols = 5;
        let inc = 36000.0; // 10 degrees
        let mut g = SubGridSpec {
            name: "CONST".to_string(),
            parent: "NONE".to_string(),
            s_lat: 0.0,
            n_lat: inc * 4.0,
            e_long: -inc * 4.0,
            w_long: 0.0,
            lat_inc: inc,
            long_inc: inc,
            rows,
            cols,
            nodes: Vec::new(),
        };
        g.nodes = vec![(lat_shift, -lon_shift_east); rows * cols];
        Ntv2Spec {
            big_endian,
            subgrids: vec![g],
            meta: 0,
        }
    }
}

impl SubGridSpec {
    /// node (i from south, j from east) -> (lon east positive rad, lat rad)
    pub fn node_position(&self, i: usize, j: usize) -> (f64, f64) {
        let lat = self.s_lat + i as f64 * self.lat_inc;
        let lon_west = self.e_long + j as f64 * self.long_inc;
        ((-lon_west / 3600.0).to_radians(), (lat / 3600.0).to_radians())
    }
    /// expected (lon shift east positive rad, lat shift rad)
    pub fn node_expectation(&self, i: usize, j: usize) -> (f64, f64) {
        let (lat, lon) = self.nodes[i * self.cols + j];
        let lat = ((lat as f64) / 3600.0).to_radians() as f32 as f64;
        let lon = ((-(lon as f64)) / 3600.0).to_radians() as f32 as f64;
        (lon, lat)
    }
    pub fn extent_rad(&self) -> (f64, f64, f64, f64) {
        // (lon_w, lon_e, lat_s, lat_n), east positive
        (
            (-self.w_long / 3600.0).to_radians(),
            (-self.e_long / 3600.0).to_radians(),
            (self.s_lat / 3600.0).to_radians(),
            (self.n_lat / 3600.0).to_radians(),
        )
    }
}

// ----- the ASCII rendering (.gsa) ---------------------------------------------------

/// Parse a .gsa file: same records as the binary, as text
pub fn parse_gsa(text: &str) -> Option<Ntv2Spec> {
    let mut lines = text.lines().map(|l| l.trim_end()).filter(|l| !l.trim().is_empty()).peekable();
    let mut num_file = 0usize;
    // overview: 11 records
    for _ in 0..11 {
        let l = lines.next()?;
        let key = l.get(..8)?.trim();
        let val = l.get(8..)?.trim();
        if key == "NUM_FILE" {
            num_file = val.parse().ok()?;
        }
    }
    let mut subgrids = Vec::new();
    for _ in 0..num_file {
        let mut g = SubGridSpec {
            name: String::new(),
            parent: String::new(),
            s_lat: 0.0,
            n_lat: 0.0,
            e_long: 0.0,
            w_long: 0.0,
            lat_inc: 0.0,
            long_inc: 0.0,
            rows: 0,
            cols: 0,
            nodes: Vec::new(),
        };
        let mut count = 0usize;
        for _ in 0..11 {
            let l = lines.next()?;
            let key = l.get(..8)?.trim();
            let val = l.get(8..)?.trim();
            match key {
                "SUB_NAME" => g.name = val.to_string(),
                "PARENT" => g.parent = val.to_string(),
                "S_LAT" => g.s_lat = val.parse().ok()?,
                "N_LAT" => g.n_lat = val.parse().ok()?,
                "E_LONG" => g.e_long = val.parse().ok()?,
                "W_LONG" => g.w_long = val.parse().ok()?,
                "LAT_INC" => g.lat_inc = val.parse().ok()?,
                "LONG_INC" => g.long_inc = val.parse().ok()?,
                "GS_COUNT" => count = val.parse().ok()?,
                _ => {}
            }
        }
        g.rows = ((g.n_lat - g.s_lat) / g.lat_inc).round() as usize + 1;
        g.cols = ((g.w_long - g.e_long) / g.long_inc).round() as usize + 1;
        if g.rows * g.cols != count {
            return None;
        }
        for _ in 0..count {
            let l = lines.next()?;
            let mut it = l.split_whitespace();
            let lat: f32 = it.next()?.parse().ok()?;
            let lon: f32 = it.next()?.parse().ok()?;
            g.nodes.push((lat, lon));
        }
        subgrids.push(g);
    }
    Some(Ntv2Spec {
        big_endian: false,
        subgrids,
        meta: 0,
    })
}
