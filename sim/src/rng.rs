//! Own PRNG (SplitMix64 seeding, xoshiro256** stream) so that replay files stay
//! valid whatever crate versions are around. Every random choice made anywhere in
//! the simulator comes from one of these, derived from VERIF_SEED.

pub fn splitmix(state: &mut u64) -> u64 {
    *state = state.wrapping_add(0x9E37_79B9_7F4A_7C15);
    let mut z = *state;
    z = (z ^ (z >> 30)).wrapping_mul(0xBF58_476D_1CE4_E5B9);
    z = (z ^ (z >> 27)).wrapping_mul(0x94D0_49BB_1331_11EB);
    z ^ (z >> 31)
}

/// Derive the seed of run `index` of `engine` from the master seed
pub fn run_seed(master: u64, engine: &str, index: u64) -> u64 {
    let mut s = master ^ 0xD6E8_FEB8_6659_FD93;
    for b in engine.bytes() {
        s = s.wrapping_mul(0x100_0000_01B3) ^ b as u64;
    }
    let mut s = s ^ index.wrapping_mul(0xA076_1D64_78BD_642F);
    splitmix(&mut s);
    splitmix(&mut s)
}

#[derive(Clone, Debug)]
pub struct Rng {
    s: [u64; 4],
}

impl Rng {
    pub fn new(seed: u64) -> Rng {
        let mut sm = seed;
        let s = [
            splitmix(&mut sm),
            splitmix(&mut sm),
            splitmix(&mut sm),
            splitmix(&mut sm),
        ];
        Rng { s }
    }

    pub fn next_u64(&mut self) -> u64 {
        let result = self.s[1].wrapping_mul(5).rotate_left(7).wrapping_mul(9);
        let t = self.s[1] << 17;
        self.s[2] ^= self.s[0];
        self.s[3] ^= self.s[1];
        self.s[1] ^= self.s[2];
        self.s[0] ^= self.s[3];
        self.s[2] ^= t;
        self.s[3] = self.s[3].rotate_left(45);
        result
    }

    /// Uniform in 0..n (n > 0)
    pub fn below(&mut self, n: usize) -> usize {
        debug_assert!(n > 0);
        ((self.next_u64() >> 11) % (n as u64)) as usize
    }

    /// Uniform in lo..=hi
    pub fn range(&mut self, lo: i64, hi: i64) -> i64 {
        debug_assert!(hi >= lo);
        lo + self.below((hi - lo + 1) as usize) as i64
    }

    /// Uniform in [0, 1)
    pub fn unit(&mut self) -> f64 {
        (self.next_u64() >> 11) as f64 / (1u64 << 53) as f64
    }

    pub fn uniform(&mut self, lo: f64, hi: f64) -> f64 {
        lo + (hi - lo) * self.unit()
    }

    pub fn chance(&mut self, p: f64) -> bool {
        self.unit() < p
    }

    pub fn pick<'a, T>(&mut self, items: &'a [T]) -> &'a T {
        &items[self.below(items.len())]
    }

    pub fn shuffle<T>(&mut self, items: &mut [T]) {
        for i in (1..items.len()).rev() {
            let j = self.below(i + 1);
            items.swap(i, j);
        }
    }

    /// Pick an index according to integer weights
    pub fn weighted(&mut self, weights: &[u32]) -> usize {
        let total: u64 = weights.iter().map(|w| *w as u64).sum();
        debug_assert!(total > 0);
        let mut x = (self.next_u64() >> 11) % total;
        for (i, w) in weights.iter().enumerate() {
            if x < *w as u64 {
                return i;
            }
            x -= *w as u64;
        }
        weights.len() - 1
    }

    pub fn fork(&mut self) -> Rng {
        Rng::new(self.next_u64())
    }
}
