//! C02: a simulated "future Context" which splits, permutes, repeats and interleaves
//! apply calls with history noise, checked against per-tuple reference results.

use crate::catalog::{self, Domain};
use crate::engine::{Engine, EngineInfo, Recorder, Tier};
use crate::rng::Rng;
use crate::util::{self, catch, f64_bits_eq, fmt_f64, hash_str, Hash128, Scratch};
use geodesy::authoring::*;
use serde::{Deserialize, Serialize};
use std::collections::HashMap;
use std::path::PathBuf;

// ----- Plan -------------------------------------------------------------------------

#[derive(Serialize, Deserialize, Clone, Debug, PartialEq)]
pub enum Container {
    V4,
    A4,
    S4,
    V4T,
    V3,
    A3,
    S3,
    V3T,
    V2,
    A2,
    S2,
    V2HT,
    V32,
    A32,
    S32,
    V32HT,
    /// the 2D + fixed height and epoch adaptor wrapped in a fixed epoch adaptor
    V2HTT,
}

pub const ALL_CONTAINERS: &[Container] = &[
    Container::V4,
    Container::A4,
    Container::S4,
    Container::V4T,
    Container::V3,
    Container::A3,
    Container::S3,
    Container::V3T,
    Container::V2,
    Container::A2,
    Container::S2,
    Container::V2HT,
    Container::V32,
    Container::A32,
    Container::S32,
    Container::V32HT,
    Container::V2HTT,
];

type Bits = [u64; 4];

fn to_bits(c: [f64; 4]) -> Bits {
    [
        c[0].to_bits(),
        c[1].to_bits(),
        c[2].to_bits(),
        c[3].to_bits(),
    ]
}
fn from_bits(b: Bits) -> [f64; 4] {
    [
        f64::from_bits(b[0]),
        f64::from_bits(b[1]),
        f64::from_bits(b[2]),
        f64::from_bits(b[3]),
    ]
}

#[derive(Serialize, Deserialize, Clone, Debug, PartialEq)]
pub enum Event {
    /// Apply the handle under test to the listed tuples (indices into `tuples`),
    /// presented through `container`; `h`/`t` are the adapter's fixed values
    Apply {
        inv: bool,
        container: Container,
        idx: Vec<u32>,
        h: u64,
        t: u64,
    },
    /// Apply the handle under test to unrelated data (history noise; also checked)
    NoiseApply { inv: bool, tuples: Vec<Bits> },
    /// Instantiate some other operator in the same context and apply it
    NoiseOp {
        def: String,
        inv: bool,
        tuples: Vec<Bits>,
    },
    /// register_resource on the context under test
    Register { name: String, text: String },
    /// register_op of a harness operator on the context under test
    RegisterOp { name: String },
    ClearGrids,
    /// 0 = delete, 1 = truncate to half, 2 = overwrite with garbage
    DamageGrid { name: String, how: u8 },
}

#[derive(Serialize, Deserialize, Clone, Debug, PartialEq)]
pub struct Plan {
    pub plain: bool,
    pub def: String,
    pub tuples: Vec<Bits>,
    pub events: Vec<Event>,
}

// ----- harness operators ------------------------------------------------------------

fn addk_fwd(op: &Op, _ctx: &dyn Context, operands: &mut dyn CoordinateSet) -> usize {
    let k = op.params.real("k").unwrap_or(7.0);
    let n = operands.len();
    for i in 0..n {
        let mut c = operands.get_coord(i);
        c[1] += k;
        operands.set_coord(i, &c);
    }
    n
}
fn addk_inv(op: &Op, _ctx: &dyn Context, operands: &mut dyn CoordinateSet) -> usize {
    let k = op.params.real("k").unwrap_or(7.0);
    let n = operands.len();
    for i in 0..n {
        let mut c = operands.get_coord(i);
        c[1] -= k;
        operands.set_coord(i, &c);
    }
    n
}
pub const ADDK_GAMUT: [OpParameter; 2] = [
    OpParameter::Flag { key: "inv" },
    OpParameter::Real {
        key: "k",
        default: Some(7.0),
    },
];
pub fn addk_new(parameters: &RawParameters, ctx: &dyn Context) -> Result<Op, Error> {
    Op::plain(
        parameters,
        InnerOp(addk_fwd),
        Some(InnerOp(addk_inv)),
        &ADDK_GAMUT,
        ctx,
    )
}

// ----- a context of either kind -----------------------------------------------------

pub enum Ctx {
    M(Minimal),
    P(Plain),
}

impl Ctx {
    pub fn new(plain: bool) -> Ctx {
        if plain {
            Ctx::P(Plain::new())
        } else {
            Ctx::M(Minimal::new())
        }
    }
    pub fn get(&self) -> &dyn Context {
        match self {
            Ctx::M(c) => c,
            Ctx::P(c) => c,
        }
    }
    pub fn get_mut(&mut self) -> &mut dyn Context {
        match self {
            Ctx::M(c) => c,
            Ctx::P(c) => c,
        }
    }
}

// ----- presenting tuples through containers -----------------------------------------

/// What an apply through a container produced, per tuple, in the dimensions it stores
type Stored = Vec<Option<f64>>; // None: dimension not stored

struct Presented {
    out: Vec<[Option<f64>; 4]>,
    count: usize,
}

fn f32r(v: f64) -> f64 {
    v as f32 as f64
}

/// The 4D tuple the operator sees when `c` is presented through `container`
fn effective(container: &Container, c: [f64; 4], h: f64, t: f64) -> [f64; 4] {
    use Container::*;
    match container {
        V4 | A4 | S4 => c,
        V4T => [c[0], c[1], c[2], t],
        V3 | A3 | S3 => [c[0], c[1], c[2], f64::NAN],
        V3T => [c[0], c[1], c[2], t],
        V2 | A2 | S2 => [c[0], c[1], 0.0, f64::NAN],
        V2HT => [c[0], c[1], h, t],
        // the outer adaptor keeps the inner one's height and replaces its epoch
        V2HTT => [c[0], c[1], h, t + 1.0],
        V32 | A32 | S32 => [f32r(c[0]), f32r(c[1]), 0.0, f64::NAN],
        V32HT => [f32r(c[0]), f32r(c[1]), h, t],
    }
}

/// Project a 4D result onto what `container` stores
fn project(container: &Container, r: [f64; 4]) -> [Option<f64>; 4] {
    use Container::*;
    match container {
        V4 | A4 | S4 => [Some(r[0]), Some(r[1]), Some(r[2]), Some(r[3])],
        // the adapter overrides the fourth dimension on every read, so what the inner
        // vector keeps there is not a dimension the presentation stores
        V4T | V3 | A3 | S3 | V3T => [Some(r[0]), Some(r[1]), Some(r[2]), None],
        V2 | A2 | S2 | V2HT | V2HTT => [Some(r[0]), Some(r[1]), None, None],
        V32 | A32 | S32 | V32HT => [Some(f32r(r[0])), Some(f32r(r[1])), None, None],
    }
}

macro_rules! with_array {
    ($data:expr, $ty:ty, $apply:expr, [$($n:literal),*]) => {{
        let data = $data;
        match data.len() {
            $( $n => {
                let mut arr: [$ty; $n] = data.clone().try_into().unwrap();
                let count = $apply(&mut arr as &mut dyn CoordinateSet);
                (arr.to_vec(), count)
            } )*
            _ => {
                // no array of that length at hand: present as a slice instead
                let mut v = data.clone();
                let count = {
                    let mut s: &mut [$ty] = &mut v[..];
                    $apply(&mut s as &mut dyn CoordinateSet)
                };
                (v, count)
            }
        }
    }};
}

/// Present `inputs` through `container` and apply. Panics propagate to the caller's catch.
fn present(
    ctx: &dyn Context,
    handle: OpHandle,
    dir_inv: bool,
    container: &Container,
    inputs: &[[f64; 4]],
    h: f64,
    t: f64,
) -> Result<Presented, String> {
    use Container::*;
    let apply = |set: &mut dyn CoordinateSet| -> Result<usize, String> {
        let dir = if dir_inv { Inv } else { Fwd };
        ctx.apply(handle, dir, set).map_err(|e| e.to_string())
    };
    let all4 = |v: &[Coor4D]| -> Vec<[Option<f64>; 4]> {
        v.iter()
            .map(|c| [Some(c[0]), Some(c[1]), Some(c[2]), Some(c[3])])
            .collect()
    };
    let all3 = |v: &[Coor3D]| -> Vec<[Option<f64>; 4]> {
        v.iter()
            .map(|c| [Some(c[0]), Some(c[1]), Some(c[2]), None])
            .collect()
    };
    let all2 = |v: &[Coor2D]| -> Vec<[Option<f64>; 4]> {
        v.iter()
            .map(|c| [Some(c[0]), Some(c[1]), None, None])
            .collect()
    };
    let all32 = |v: &[Coor32]| -> Vec<[Option<f64>; 4]> {
        v.iter()
            .map(|c| [Some(c[0] as f64), Some(c[1] as f64), None, None])
            .collect()
    };
    let d4: Vec<Coor4D> = inputs.iter().map(|c| Coor4D(*c)).collect();
    let d3: Vec<Coor3D> = inputs.iter().map(|c| Coor3D([c[0], c[1], c[2]])).collect();
    let d2: Vec<Coor2D> = inputs.iter().map(|c| Coor2D([c[0], c[1]])).collect();
    let d32: Vec<Coor32> = inputs
        .iter()
        .map(|c| Coor32([c[0] as f32, c[1] as f32]))
        .collect();

    let (out, count) = match container {
        V4 => {
            let mut v = d4;
            let n = apply(&mut v)?;
            (all4(&v), n)
        }
        A4 => {
            let (v, n) = with_array!(&d4, Coor4D, apply, [1, 2, 3, 4, 5, 8, 16]);
            (all4(&v), n?)
        }
        S4 => {
            let mut v = d4;
            let n = {
                let mut s: &mut [Coor4D] = &mut v[..];
                apply(&mut s)?
            };
            (all4(&v), n)
        }
        V4T => {
            let mut set = (d4, t);
            let n = apply(&mut set)?;
            let shown = set
                .0
                .iter()
                .map(|c| [Some(c[0]), Some(c[1]), Some(c[2]), None])
                .collect();
            (shown, n)
        }
        V3 => {
            let mut v = d3;
            let n = apply(&mut v)?;
            (all3(&v), n)
        }
        A3 => {
            let (v, n) = with_array!(&d3, Coor3D, apply, [1, 2, 3, 4, 5, 8, 16]);
            (all3(&v), n?)
        }
        S3 => {
            let mut v = d3;
            let n = {
                let mut s: &mut [Coor3D] = &mut v[..];
                apply(&mut s)?
            };
            (all3(&v), n)
        }
        V3T => {
            let mut set = (d3, t);
            let n = apply(&mut set)?;
            (all3(&set.0), n)
        }
        V2 => {
            let mut v = d2;
            let n = apply(&mut v)?;
            (all2(&v), n)
        }
        A2 => {
            let (v, n) = with_array!(&d2, Coor2D, apply, [1, 2, 3, 4, 5, 8, 16]);
            (all2(&v), n?)
        }
        S2 => {
            let mut v = d2;
            let n = {
                let mut s: &mut [Coor2D] = &mut v[..];
                apply(&mut s)?
            };
            (all2(&v), n)
        }
        V2HT => {
            let mut set = (d2, h, t);
            let n = apply(&mut set)?;
            (all2(&set.0), n)
        }
        V2HTT => {
            let mut set = ((d2, h, t), t + 1.0);
            let n = apply(&mut set)?;
            (all2(&set.0 .0), n)
        }
        V32 => {
            let mut v = d32;
            let n = apply(&mut v)?;
            (all32(&v), n)
        }
        A32 => {
            let (v, n) = with_array!(&d32, Coor32, apply, [1, 2, 3, 4, 5, 8, 16]);
            (all32(&v), n?)
        }
        S32 => {
            let mut v = d32;
            let n = {
                let mut s: &mut [Coor32] = &mut v[..];
                apply(&mut s)?
            };
            (all32(&v), n)
        }
        V32HT => {
            let mut set = (d32, h, t);
            let n = apply(&mut set)?;
            (all32(&set.0), n)
        }
    };
    Ok(Presented { out, count })
}

fn stored_eq(a: &[Option<f64>; 4], b: &[Option<f64>; 4]) -> bool {
    a.iter().zip(b.iter()).all(|(x, y)| match (x, y) {
        (Some(x), Some(y)) => f64_bits_eq(*x, *y),
        (None, None) => true,
        _ => false,
    })
}

fn fmt_stored(a: &[Option<f64>; 4]) -> String {
    let parts: Vec<String> = a
        .iter()
        .map(|v| match v {
            Some(v) => fmt_f64(*v),
            None => "-".to_string(),
        })
        .collect();
    format!("[{}]", parts.join(", "))
}

fn fmt4(c: [f64; 4]) -> String {
    format!(
        "[{}, {}, {}, {}]",
        fmt_f64(c[0]),
        fmt_f64(c[1]),
        fmt_f64(c[2]),
        fmt_f64(c[3])
    )
}

// ----- the engine -------------------------------------------------------------------

pub struct ChunkSim {
    _scratch: Scratch,
    root: PathBuf,
    pristine: PathBuf,
    dirty: bool,
}

/// singleton reference result: (stored dims, count) or a panic message
type RefResult = Result<([Option<f64>; 4], usize), String>;

struct Reference {
    ctx: Ctx,
    handle: OpHandle,
    cache: HashMap<(bool, u8, Bits, u64, u64), RefResult>,
}

fn container_code(c: &Container) -> u8 {
    ALL_CONTAINERS.iter().position(|x| x == c).unwrap_or(0) as u8
}

impl Reference {
    /// Result for one tuple alone, through the same container family
    fn single(&mut self, inv: bool, container: &Container, c: [f64; 4], h: f64, t: f64) -> RefResult {
        let key = (
            inv,
            container_code(container),
            to_bits(c),
            h.to_bits(),
            t.to_bits(),
        );
        if let Some(r) = self.cache.get(&key) {
            return r.clone();
        }
        let ctx = self.ctx.get();
        let handle = self.handle;
        let r = match catch(|| present(ctx, handle, inv, container, &[c], h, t)) {
            Ok(Ok(p)) => Ok((p.out[0], p.count)),
            Ok(Err(e)) => Err(format!("apply error: {e}")),
            Err(panic) => Err(panic),
        };
        self.cache.insert(key, r.clone());
        r
    }
}

const GRID_FILES: &[&str] = &[
    "datum/test.datum",
    "datum/test_subset.datum",
    "geoid/test.geoid",
    "deformation/test.deformation",
    "deformation/another_test.deformation",
    "gsb/5458.gsb",
    "gsb/5458_with_subgrid.gsb",
    "gsb/100800401.gsb",
];

impl ChunkSim {
    fn restore_disk(&mut self) {
        if !self.dirty {
            return;
        }
        for f in GRID_FILES {
            let target = self.root.join("geodesy").join(f);
            util::remove_any(&target);
            let _ = std::fs::copy(self.pristine.join(f), &target);
        }
        self.dirty = false;
    }

    fn setup_ctx(plain: bool) -> Ctx {
        let mut ctx = Ctx::new(plain);
        ctx.get_mut()
            .register_op("addk", OpConstructor(addk_new));
        ctx.get_mut()
            .register_resource("sim:add3", "addone | addone | addone");
        ctx
    }
}

fn gen_chunks(rng: &mut Rng, n: usize) -> Vec<Vec<u32>> {
    // A partition of (a permutation of) 0..n into chunks; empty chunks now and then
    let mut order: Vec<u32> = (0..n as u32).collect();
    if rng.chance(0.6) {
        rng.shuffle(&mut order);
    }
    let style = rng.below(5);
    let mut chunks: Vec<Vec<u32>> = Vec::new();
    match style {
        0 => chunks.push(order),
        1 => {
            for i in order {
                chunks.push(vec![i]);
            }
        }
        2 => {
            let mid = order.len() / 2;
            chunks.push(order[..mid].to_vec());
            chunks.push(order[mid..].to_vec());
        }
        _ => {
            let mut rest = &order[..];
            while !rest.is_empty() {
                let take = 1 + rng.below(rest.len().min(8));
                chunks.push(rest[..take].to_vec());
                rest = &rest[take..];
                if rng.chance(0.1) {
                    chunks.push(Vec::new());
                }
            }
        }
    }
    if chunks.is_empty() {
        chunks.push(Vec::new());
    }
    if rng.chance(0.5) {
        rng.shuffle(&mut chunks);
    }
    chunks
}

impl Engine for ChunkSim {
    type Plan = Plan;
    const NAME: &'static str = "chunksim";
    const PROPERTY: &'static str = "C02";

    fn new(_tier: Tier) -> Self {
        let scratch = Scratch::new("chunksim");
        let root = scratch.root.clone();
        let repo = std::env::var("VERIF_REPO").unwrap_or_else(|_| "/repo".to_string());
        let src = PathBuf::from(&repo).join("geodesy");
        util::copy_tree(&src, &root.join("geodesy")).expect("copy geodesy tree");
        util::copy_tree(&src, &root.join("pristine")).expect("copy pristine tree");
        std::fs::create_dir_all(root.join("xdg")).unwrap();
        std::env::set_var("XDG_DATA_HOME", root.join("xdg"));
        std::env::set_var("HOME", &root);
        std::env::set_current_dir(&root).expect("chdir scratch");
        ChunkSim {
            pristine: root.join("pristine"),
            root,
            _scratch: scratch,
            dirty: false,
        }
    }

    fn info() -> EngineInfo {
        EngineInfo {
            rule: "chunksim: one run = one operator definition (catalogue entry, catalogue pipeline or seeded pipeline over them, incl. stack steps/inv/omit) on a Minimal or Plain context x one seeded coordinate set (mixed epochs, NaN/inf/out-of-domain neighbours, duplicates) x a seeded schedule of real Context::apply calls (chunkings, permutations, repetitions, both directions, 16 container presentations) interleaved with history noise (unrelated applies on the same handle, other operators, register_resource/register_op incl. shadowing names the operator used, clear_grids, grid file deletion/damage). Every tuple of every call is compared bit-for-bit with the same tuple applied alone through a fresh context. A run is non-trivial if the operator instantiated and at least one apply had >= 2 tuples; distinct = distinct hash of (definition, event kinds, containers, directions, chunk lengths).",
            real_components: &[
                "geodesy library (Minimal, Plain, Op, every inner_op, CoordinateSet impls)",
                "std::fs on a tmpfs scratch copy of the geodesy/ resource tree",
            ],
            simulated_components: &[
                "the chunk scheduler standing in for a future parallel Context (partition, order, repetition of apply calls)",
                "history noise events",
                "grid file damage on the scratch disk",
            ],
            assumptions: &[
                "apply(&self) contains no synchronisation and src/ has no interior mutability, so any concurrent interleaving of apply calls on disjoint buffers equals some sequential chunk order",
                "the reference (same definition, fresh context, tuple alone) is taken as the meaning of 'the operator on that tuple'; errors that are identical for batch and singleton are out of scope of C02",
            ],
            required_probes: &[
                "dynamic_helmert_mixed_epochs_in_chunk",
                "bad_tuple_followed_by_good",
                "grid_damaged_between_applies",
                "stack_pipeline_applied_repeatedly",
                "empty_chunk",
                "container_non4d",
                "shadowing_registration_after_creation",
            ],
            exhaustive: false,
        }
    }

    fn runs(&self, tier: Tier) -> u64 {
        match tier {
            Tier::Quick => 1_000_000,
            Tier::Thorough => 24_000_000,
        }
    }

    fn generate(&self, _index: u64, seed: u64, tier: Tier) -> Plan {
        let mut rng = Rng::new(seed);
        let plain = rng.chance(0.6);
        let (def, domain) = catalog::gen_definition(&mut rng, plain);
        // swarm knobs
        let max_n = match rng.weighted(&[30, 40, 24, 5, 1]) {
            0 => 3,
            1 => 12,
            2 => 40,
            3 => 400,
            _ => {
                // sets long enough to cross whatever internal block size a Context or an
                // operator might introduce (1024, 4096, ...); 10^5 in the thorough tier
                if tier == Tier::Thorough && rng.chance(0.1) {
                    100_000
                } else {
                    *rng.pick(&[1_500usize, 5_000, 9_000, 9_000, 20_000, 70_000])
                }
            }
        };
        let n = if rng.chance(0.03) {
            0
        } else if max_n >= 1_000 && rng.chance(0.4) {
            // exactly at, one below and one above typical block sizes
            (*rng.pick(&[1024usize, 2048, 4096, 8192, 1000, 5000, 10_000, 16_384, 65_536]).min(&max_n) as i64 + rng.range(-1, 1)) as usize
        } else {
            1 + rng.below(max_n)
        };
        let tuples: Vec<Bits> = catalog::gen_tuples(&mut rng, domain, n)
            .into_iter()
            .map(to_bits)
            .collect();
        let noise_rate = *rng.pick(&[0.0, 0.0, 0.2, 0.5]);
        let container_mix = rng.chance(0.5);
        let both_dirs = rng.chance(0.6);
        let main_inv = rng.chance(0.3);
        let passes = 1 + rng.below(3);
        let mut events = Vec::new();
        let small = n <= 64;
        for _ in 0..passes {
            let chunks = if small {
                gen_chunks(&mut rng, n)
            } else {
                // large sets: whole, halves or a few big cuts only
                let order: Vec<u32> = (0..n as u32).collect();
                let cut = rng.below(n + 1);
                vec![order[..cut].to_vec(), order[cut..].to_vec()]
            };
            for idx in chunks {
                if rng.chance(noise_rate) {
                    events.push(gen_noise(&mut rng, &def, plain, domain));
                }
                let inv = if both_dirs { rng.chance(0.5) } else { main_inv };
                let container = if container_mix && (idx.len() <= 64 || rng.chance(0.15)) {
                    rng.pick(ALL_CONTAINERS).clone()
                } else {
                    Container::V4
                };
                let h = if rng.chance(0.5) { 0.0 } else { rng.range(-5, 50) as f64 };
                let t = *rng.pick(catalog::EPOCHS);
                events.push(Event::Apply {
                    inv,
                    container,
                    idx,
                    h: h.to_bits(),
                    t: t.to_bits(),
                });
            }
        }
        Plan {
            plain,
            def,
            tuples,
            events,
        }
    }

    fn plan_size(&self, plan: &Plan) -> usize {
        plan.events.len() + plan.tuples.len()
    }

    fn sample(&self, plan: &Plan) -> serde_json::Value {
        let events: Vec<String> = plan
            .events
            .iter()
            .take(12)
            .map(|e| match e {
                Event::Apply {
                    inv,
                    container,
                    idx,
                    ..
                } => format!(
                    "apply {} {:?} idx={:?}",
                    if *inv { "inv" } else { "fwd" },
                    container,
                    &idx[..idx.len().min(10)]
                ),
                Event::NoiseApply { inv, tuples } => {
                    format!("noise-apply inv={} n={}", inv, tuples.len())
                }
                Event::NoiseOp { def, .. } => format!("noise-op '{}'", def),
                Event::Register { name, text } => format!("register_resource {}='{}'", name, text),
                Event::RegisterOp { name } => format!("register_op {}", name),
                Event::ClearGrids => "clear_grids".to_string(),
                Event::DamageGrid { name, how } => format!("damage {} how={}", name, how),
            })
            .collect();
        let tuples: Vec<String> = plan
            .tuples
            .iter()
            .take(4)
            .map(|b| fmt4(from_bits(*b)))
            .collect();
        serde_json::json!({
            "context": if plan.plain {"Plain"} else {"Minimal"},
            "definition": plan.def,
            "tuples": plan.tuples.len(),
            "first_tuples": tuples,
            "events": plan.events.len(),
            "first_events": events,
        })
    }

    fn shrink_candidates(&self, plan: &Plan) -> Vec<Plan> {
        let mut out = Vec::new();
        // drop halves / single events
        let n = plan.events.len();
        let mut width = n / 2;
        while width >= 1 {
            let mut start = 0;
            while start < n {
                let mut p = plan.clone();
                let end = (start + width).min(n);
                p.events.drain(start..end);
                if !p.events.is_empty() {
                    out.push(p);
                }
                start += width;
            }
            width /= 2;
        }
        // shrink index lists inside Apply events
        for (k, ev) in plan.events.iter().enumerate() {
            if let Event::Apply { idx, .. } = ev {
                if idx.len() > 1 {
                    let mut w = idx.len() / 2;
                    while w >= 1 {
                        let mut s = 0;
                        while s < idx.len() {
                            let mut p = plan.clone();
                            if let Event::Apply { idx: pidx, .. } = &mut p.events[k] {
                                let e = (s + w).min(pidx.len());
                                pidx.drain(s..e);
                            }
                            out.push(p);
                            s += w;
                        }
                        w /= 2;
                    }
                }
            }
            if let Event::NoiseApply { tuples, .. } | Event::NoiseOp { tuples, .. } = ev {
                if tuples.len() > 1 {
                    let mut p = plan.clone();
                    match &mut p.events[k] {
                        Event::NoiseApply { tuples, .. } | Event::NoiseOp { tuples, .. } => {
                            tuples.truncate(1)
                        }
                        _ => {}
                    }
                    out.push(p);
                }
            }
        }
        // simpler containers
        for (k, ev) in plan.events.iter().enumerate() {
            if let Event::Apply { container, .. } = ev {
                if *container != Container::V4 {
                    let mut p = plan.clone();
                    if let Event::Apply { container, .. } = &mut p.events[k] {
                        *container = Container::V4;
                    }
                    out.push(p);
                }
            }
        }
        // drop unused tuples (renumbering)
        let mut used = vec![false; plan.tuples.len()];
        for ev in &plan.events {
            if let Event::Apply { idx, .. } = ev {
                for i in idx {
                    if let Some(u) = used.get_mut(*i as usize) {
                        *u = true;
                    }
                }
            }
        }
        if used.iter().any(|u| !u) {
            let mut map = vec![0u32; plan.tuples.len()];
            let mut p = plan.clone();
            p.tuples.clear();
            for (i, u) in used.iter().enumerate() {
                if *u {
                    map[i] = p.tuples.len() as u32;
                    p.tuples.push(plan.tuples[i]);
                }
            }
            for ev in &mut p.events {
                if let Event::Apply { idx, .. } = ev {
                    for i in idx.iter_mut() {
                        *i = map[*i as usize];
                    }
                }
            }
            out.push(p);
        }
        // simpler definition: drop pipeline steps
        let steps: Vec<&str> = plan.def.split('|').collect();
        if steps.len() > 1 {
            for k in 0..steps.len() {
                let mut s = steps.clone();
                s.remove(k);
                let mut p = plan.clone();
                p.def = s.join("|").trim().to_string();
                out.push(p);
            }
        }
        if plan.plain {
            let mut p = plan.clone();
            p.plain = false;
            out.push(p);
        }
        // simpler coordinate values
        for (i, t) in plan.tuples.iter().enumerate() {
            let c = from_bits(*t);
            for d in 0..4 {
                for simple in [0.0, 1.0, c[d].round()] {
                    if !f64_bits_eq(c[d], simple) && c[d].is_finite() {
                        let mut p = plan.clone();
                        let mut cc = c;
                        cc[d] = simple;
                        p.tuples[i] = to_bits(cc);
                        out.push(p);
                    }
                }
            }
        }
        out
    }

    fn execute(&mut self, plan: &Plan, rec: &mut Recorder) {
        self.restore_disk();
        Plain::verif_reset_grids();

        let mut sig = Hash128::new();
        sig.str(&plan.def);
        rec.logf(|| format!("ctx={} def='{}' tuples={}", if plan.plain { "plain" } else { "minimal" }, plan.def, plan.tuples.len()));

        // System under test and reference are instantiated at the same instant,
        // from the same pristine disk, in two separate contexts.
        let mut sut = ChunkSim::setup_ctx(plan.plain);
        let reference_ctx = ChunkSim::setup_ctx(plan.plain);
        let def = plan.def.clone();
        let made = catch(|| {
            let a = sut.get_mut().op(&def);
            (a, reference_ctx)
        });
        let (sut_handle, mut reference_ctx) = match made {
            Ok((a, r)) => (a, r),
            Err(panic) => {
                rec.tolerate("panic_in_op");
                rec.logf(|| format!("op panicked: {}", util::normalize_panic(&panic)));
                return;
            }
        };
        // The two must not share grid objects through the process-wide cache either:
        // the reference loads its own copies from disk, and later operators (noise)
        // get third copies.
        Plain::verif_reset_grids();
        let ref_made = catch(|| reference_ctx.get_mut().op(&def));
        Plain::verif_reset_grids();
        let ref_handle = match ref_made {
            Ok(r) => r,
            Err(panic) => {
                rec.violate("I-pan", &format!("op() panics in a second fresh context only: {}", panic), panic.clone());
                return;
            }
        };
        let (sut_handle, ref_handle) = match (sut_handle, ref_handle) {
            (Ok(a), Ok(b)) => (a, b),
            (Err(a), Err(_)) => {
                rec.probe("op_failed");
                rec.logf(|| format!("op failed: {}", util::normalize_message(&a.to_string())));
                return;
            }
            (a, b) => {
                rec.violate(
                    "I-rep",
                    "same definition instantiates in one fresh context and fails in another",
                    format!("def='{}' sut={:?} ref={:?}", plan.def, a.is_ok(), b.is_ok()),
                );
                return;
            }
        };
        let elementary = sut
            .get()
            .steps(sut_handle)
            .map(|s| s.len() <= 1)
            .unwrap_or(false);
        let is_dynamic_helmert = plan.def.contains("helmert")
            && (plan.def.contains(" d") || plan.def.contains("velocity"))
            && !plan.def.contains("t_obs");
        let has_stack = plan.def.contains("stack ") || plan.def.contains("push") || plan.def.contains("pop");
        let mut reference = Reference {
            ctx: reference_ctx,
            handle: ref_handle,
            cache: HashMap::new(),
        };
        let mut applies_on_handle = 0u32;
        let mut damaged = false;
        let mut shadowed = false;
        let mut nontrivial = false;

        for (k, ev) in plan.events.iter().enumerate() {
            if rec.failed() {
                break;
            }
            rec.event();
            match ev {
                Event::Apply { inv, container, idx, h, t } => {
                    let h = f64::from_bits(*h);
                    let t = f64::from_bits(*t);
                    let inputs: Vec<[f64; 4]> = idx
                        .iter()
                        .filter_map(|i| plan.tuples.get(*i as usize))
                        .map(|b| from_bits(*b))
                        .collect();
                    sig.str("A");
                    sig.u64(container_code(container) as u64);
                    sig.u64(*inv as u64);
                    sig.u64(inputs.len().min(9) as u64);
                    self.check_apply(rec, k, &sut, sut_handle, &mut reference, *inv, container, &inputs, h, t, elementary);
                    applies_on_handle += 1;
                    if inputs.len() >= 2 {
                        nontrivial = true;
                    }
                    // probes
                    if inputs.is_empty() {
                        rec.probe("empty_chunk");
                    }
                    if !matches!(container, Container::V4) {
                        rec.probe("container_non4d");
                    }
                    if is_dynamic_helmert && matches!(container, Container::V4 | Container::A4 | Container::S4) {
                        let mut seen: Vec<u64> = Vec::new();
                        for c in &inputs {
                            let b = c[3].to_bits();
                            if !seen.contains(&b) {
                                seen.push(b);
                            }
                        }
                        if seen.len() >= 2 {
                            rec.probe("dynamic_helmert_mixed_epochs_in_chunk");
                        }
                    }
                    if inputs.windows(2).any(|w| w[0].iter().any(|v| !v.is_finite()) && w[1].iter().take(3).all(|v| v.is_finite())) {
                        rec.probe("bad_tuple_followed_by_good");
                    }
                    if damaged {
                        rec.probe("grid_damaged_between_applies");
                    }
                    if shadowed {
                        rec.probe("shadowing_registration_after_creation");
                    }
                    if has_stack && applies_on_handle >= 2 {
                        rec.probe("stack_pipeline_applied_repeatedly");
                    }
                }
                Event::NoiseApply { inv, tuples } => {
                    sig.str("N");
                    let inputs: Vec<[f64; 4]> = tuples.iter().map(|b| from_bits(*b)).collect();
                    self.check_apply(rec, k, &sut, sut_handle, &mut reference, *inv, &Container::V4, &inputs, 0.0, 0.0, elementary);
                    applies_on_handle += 1;
                }
                Event::NoiseOp { def, inv, tuples } => {
                    sig.str("O");
                    let mut data: Vec<Coor4D> = tuples.iter().map(|b| Coor4D(from_bits(*b))).collect();
                    let r = catch(|| {
                        let h = sut.get_mut().op(def);
                        match h {
                            Ok(h) => sut
                                .get()
                                .apply(h, if *inv { Inv } else { Fwd }, &mut data)
                                .map_err(|e| e.to_string()),
                            Err(e) => Err(e.to_string()),
                        }
                    });
                    match r {
                        Ok(Ok(n)) => rec.logf(|| format!("e{} noise-op '{}' -> {}", k, def, n)),
                        Ok(Err(e)) => rec.logf(|| format!("e{} noise-op '{}' err {}", k, def, util::normalize_message(&e))),
                        Err(p) => {
                            rec.tolerate(&format!("panic_in_noise_op: {}", util::normalize_panic(&p)));
                            rec.logf(|| format!("e{} noise-op '{}' panic {}", k, def, util::normalize_panic(&p)));
                        }
                    }
                }
                Event::Register { name, text } => {
                    sig.str("R");
                    sut.get_mut().register_resource(name, text);
                    if plan.def.contains(name.as_str()) {
                        shadowed = true;
                    }
                    rec.logf(|| format!("e{} register_resource {}", k, name));
                }
                Event::RegisterOp { name } => {
                    sig.str("P");
                    sut.get_mut().register_op(name, OpConstructor(addk_new));
                    if plan.def.contains(name.as_str()) {
                        shadowed = true;
                    }
                    rec.logf(|| format!("e{} register_op {}", k, name));
                }
                Event::ClearGrids => {
                    sig.str("C");
                    // a poisoned cache lock (a grid decoder panicked earlier in this run)
                    // is C15/C18's business; here it is only history noise
                    if catch(Plain::clear_grids).is_err() {
                        rec.tolerate("panic_in_clear_grids");
                    }
                    rec.log("clear_grids");
                }
                Event::DamageGrid { name, how } => {
                    sig.str("D");
                    let path = self.root.join("geodesy").join(name);
                    match how {
                        0 => util::remove_any(&path),
                        1 => {
                            if let Ok(bytes) = std::fs::read(&path) {
                                let _ = std::fs::write(&path, &bytes[..bytes.len() / 2]);
                            }
                        }
                        _ => {
                            let _ = std::fs::write(&path, b"not a grid at all\n1 2 3\n");
                        }
                    }
                    self.dirty = true;
                    damaged = true;
                    rec.fault(match how {
                        0 => "grid_file_deleted",
                        1 => "grid_file_truncated",
                        _ => "grid_file_garbage",
                    });
                    rec.logf(|| format!("e{} damage {} how={}", k, name, how));
                }
            }
        }
        if nontrivial {
            rec.sig(sig.low());
        }
        rec.logf(|| format!("end hash={}", sig.hex()));
    }
}

fn gen_noise(rng: &mut Rng, def: &str, plain: bool, domain: Domain) -> Event {
    match rng.weighted(&[30, 20, 20, 10, 10, 10]) {
        0 => {
            let n = 1 + rng.below(4);
            Event::NoiseApply {
                inv: rng.chance(0.5),
                tuples: catalog::gen_tuples(rng, domain, n)
                    .into_iter()
                    .map(to_bits)
                    .collect(),
            }
        }
        1 => {
            let (mut d, dom) = catalog::gen_definition(rng, plain);
            // a look-alike of the definition under test, differing only late in a long
            // parameter value (an operator that memoises by a truncated key mixes them up)
            if rng.chance(0.5) {
                if def.contains("298.257222101") {
                    d = def.replace("298.257222101", "298.257223563");
                } else if def.contains("298.257223563") {
                    d = def.replace("298.257223563", "298.257222101");
                }
            }
            let n = 1 + rng.below(3);
            Event::NoiseOp {
                def: d,
                inv: rng.chance(0.5),
                tuples: catalog::gen_tuples(rng, dom, n)
                    .into_iter()
                    .map(to_bits)
                    .collect(),
            }
        }
        2 => {
            // Re-register a macro name; prefer names the definition under test uses
            let candidates = ["geo:in", "geo:out", "neu:out", "gis:out", "sim:add3", "stupid:way", "stupid:way_too", "stupid:addthree_one_by_one", "new:macro"];
            let used: Vec<&str> = candidates.iter().copied().filter(|c| def.contains(c)).collect();
            let name = if !used.is_empty() && rng.chance(0.7) {
                *rng.pick(&used)
            } else {
                *rng.pick(&candidates)
            };
            let text = *rng.pick(&["addone", "addone | addone inv | addone", "helmert x=1000", "noop", "adapt from=enuf_deg"]);
            Event::Register {
                name: name.to_string(),
                text: text.to_string(),
            }
        }
        3 => {
            // shadow a name the definition uses, if any
            let first = def
                .split('|')
                .map(|s| s.split_whitespace().next().unwrap_or("noop"))
                .filter(|n| !n.contains(':'))
                .collect::<Vec<_>>();
            let name = if first.is_empty() { "addone" } else { *rng.pick(&first) };
            Event::RegisterOp {
                name: name.to_string(),
            }
        }
        4 => Event::ClearGrids,
        _ => {
            let names: Vec<&str> = GRID_FILES
                .iter()
                .copied()
                .filter(|f| {
                    let base = f.rsplit('/').next().unwrap_or(f);
                    def.contains(base)
                })
                .collect();
            let name = if !names.is_empty() {
                *rng.pick(&names)
            } else {
                *rng.pick(GRID_FILES)
            };
            Event::DamageGrid {
                name: name.to_string(),
                how: rng.below(3) as u8,
            }
        }
    }
}

impl ChunkSim {
    #[allow(clippy::too_many_arguments)]
    fn check_apply(
        &self,
        rec: &mut Recorder,
        k: usize,
        sut: &Ctx,
        handle: OpHandle,
        reference: &mut Reference,
        inv: bool,
        container: &Container,
        inputs: &[[f64; 4]],
        h: f64,
        t: f64,
        elementary: bool,
    ) {
        let dirname = if inv { "inv" } else { "fwd" };
        let batch = catch(|| present(sut.get(), handle, inv, container, inputs, h, t));
        // references, tuple by tuple
        let mut refs: Vec<RefResult> = Vec::with_capacity(inputs.len());
        for c in inputs {
            refs.push(reference.single(inv, container, *c, h, t));
        }
        let mut ref_panics = refs.iter().filter(|r| matches!(r, Err(m) if !m.starts_with("apply error"))).count();
        if inputs.is_empty() {
            // the reference for an empty set is the empty set in the fresh context
            let rctx = reference.ctx.get();
            let rh = reference.handle;
            if catch(|| present(rctx, rh, inv, container, &[], h, t)).is_err() {
                ref_panics = 1;
            }
        }
        let batch = match batch {
            Err(panic) => {
                if ref_panics == 0 {
                    rec.violate(
                        "I-pan",
                        &format!("batch apply panics, every tuple alone does not: {}", panic),
                        format!("event {} {} {:?} n={} panic={}", k, dirname, container, inputs.len(), panic),
                    );
                } else {
                    rec.tolerate(&format!("panic_on_both_sides: {}", util::normalize_panic(&panic)));
                    rec.logf(|| format!("e{} apply {} {:?} n={} both panic", k, dirname, container, inputs.len()));
                }
                return;
            }
            Ok(Err(e)) => {
                // apply returned Err (unknown handle): must then be so for every singleton too
                if refs.iter().all(|r| matches!(r, Err(m) if m.starts_with("apply error"))) {
                    rec.logf(|| format!("e{} apply {} err on both sides", k, dirname));
                } else {
                    rec.violate("I-val", "apply returns an error for the batch but not for its tuples alone", format!("event {} error {}", k, e));
                }
                return;
            }
            Ok(Ok(p)) => p,
        };
        if ref_panics > 0 {
            rec.violate(
                "I-pan",
                "a tuple alone panics, the batch containing it does not",
                format!("event {} {} {:?}: {:?}", k, dirname, container, refs.iter().find(|r| r.is_err())),
            );
            return;
        }
        if batch.out.len() != inputs.len() {
            rec.violate("I-val", "container changed length", format!("event {}", k));
            return;
        }
        let mut digest = Hash128::new();
        let mut ref_count_sum = 0usize;
        for (j, c) in inputs.iter().enumerate() {
            let (rout, rcount) = match &refs[j] {
                Ok(r) => r,
                Err(_) => {
                    rec.violate("I-val", "apply errors for a tuple alone but not in the batch", format!("event {}", k));
                    return;
                }
            };
            ref_count_sum += *rcount;
            for v in batch.out[j].iter().flatten() {
                digest.u64(if v.is_nan() { 0x7ff8_0000_0000_0000 } else { v.to_bits() });
            }
            if !stored_eq(&batch.out[j], rout) {
                rec.violate(
                    "I-val",
                    &format!(
                        "tuple result in a batch differs from the same tuple alone ({})",
                        if elementary { "elementary" } else { "pipeline" }
                    ),
                    format!(
                        "event {} {} {:?} position {} of {}: input {} (as seen by the operator {}) -> in batch {} alone {}",
                        k,
                        dirname,
                        container,
                        j,
                        inputs.len(),
                        fmt4(*c),
                        fmt4(effective(container, *c, h, t)),
                        fmt_stored(&batch.out[j]),
                        fmt_stored(rout)
                    ),
                );
                return;
            }
            // I-con: the container shows what the 4D vector shows, in the dimensions it stores
            if elementary && !matches!(container, Container::V4) {
                let e = effective(container, *c, h, t);
                if let Ok((r4, _)) = reference.single(inv, &Container::V4, e, 0.0, 0.0) {
                    let r4v = [r4[0].unwrap_or(0.0), r4[1].unwrap_or(0.0), r4[2].unwrap_or(0.0), r4[3].unwrap_or(0.0)];
                    let expect = project(container, r4v);
                    if !stored_eq(&expect, rout) {
                        rec.violate(
                            "I-con",
                            "container presentation yields other values than the 4D vector for the same tuple",
                            format!(
                                "event {} {} {:?}: operator input {} -> via container {} via Vec<Coor4D> {}",
                                k, dirname, container, fmt4(e), fmt_stored(rout), fmt_stored(&expect)
                            ),
                        );
                        return;
                    }
                }
            }
        }
        // (that a count never exceeds the set length is C10's statement, not C02's: not asserted)
        if elementary && batch.count != ref_count_sum {
            rec.violate(
                "I-cnt",
                "success count of the whole differs from the sum over its tuples (elementary operator)",
                format!("event {} {} {:?}: count {} sum of singleton counts {}", k, dirname, container, batch.count, ref_count_sum),
            );
            return;
        }
        rec.logf(|| format!("e{} apply {} {:?} n={} count={} out={}", k, dirname, container, inputs.len(), batch.count, digest.hex()));
    }
}

#[allow(dead_code)]
fn unused(_: Stored) -> u64 {
    hash_str("")
}
