//! Small shared helpers: stable hashing, panic capture, scratch trees.

use std::path::{Path, PathBuf};
use std::sync::Mutex;

// ----- hashing ----------------------------------------------------------------------

/// Two-lane FNV-1a (128 bits). Not cryptographic; used to compare event logs of
/// repeated executions and to count distinct signatures. Own code on purpose:
/// must be stable across processes, worker counts and crate versions.
#[derive(Clone, Debug)]
pub struct Hash128 {
    a: u64,
    b: u64,
}

impl Default for Hash128 {
    fn default() -> Self {
        Hash128 {
            a: 0xcbf2_9ce4_8422_2325,
            b: 0x6c62_272e_07bb_0142,
        }
    }
}

impl Hash128 {
    pub fn new() -> Self {
        Self::default()
    }
    pub fn bytes(&mut self, data: &[u8]) {
        for &byte in data {
            self.a = (self.a ^ byte as u64).wrapping_mul(0x0000_0100_0000_01B3);
            self.b = (self.b ^ byte as u64).wrapping_mul(0x0000_0100_0000_01B3);
            self.b = self.b.rotate_left(5) ^ self.a;
        }
        // record separator
        self.a = (self.a ^ 0xff).wrapping_mul(0x0000_0100_0000_01B3);
        self.b = (self.b ^ 0xfe).wrapping_mul(0x0000_0100_0000_01B3);
    }
    pub fn str(&mut self, s: &str) {
        self.bytes(s.as_bytes())
    }
    pub fn u64(&mut self, v: u64) {
        self.bytes(&v.to_le_bytes())
    }
    pub fn hex(&self) -> String {
        format!("{:016x}{:016x}", self.a, self.b)
    }
    pub fn low(&self) -> u64 {
        self.a ^ self.b.rotate_left(32)
    }
}

pub fn hash_str(s: &str) -> u64 {
    let mut h = Hash128::new();
    h.str(s);
    h.low()
}

// ----- panic capture ----------------------------------------------------------------

static LAST_PANIC: Mutex<Option<String>> = Mutex::new(None);

/// Install a silent panic hook that remembers "message @ file:line" of the last panic
pub fn install_panic_hook() {
    std::panic::set_hook(Box::new(|info| {
        let location = info
            .location()
            .map(|l| format!("{}:{}", l.file(), l.line()))
            .unwrap_or_else(|| "?".to_string());
        let payload = info.payload();
        let message = if let Some(s) = payload.downcast_ref::<&str>() {
            (*s).to_string()
        } else if let Some(s) = payload.downcast_ref::<String>() {
            s.clone()
        } else {
            "<non-string panic payload>".to_string()
        };
        // library sources are compiled through sim/repo-link: show them repository-relative
        let location = location.trim_start_matches("repo-link/").trim_start_matches("/repo/").to_string();
        let text = format!("{} @ {}", message, location);
        if let Ok(mut last) = LAST_PANIC.lock() {
            // keep the *first* panic of a cascade (e.g. PoisonError after the real one)
            if last.is_none() {
                *last = Some(text);
            }
        }
    }));
}

pub fn take_last_panic() -> Option<String> {
    LAST_PANIC.lock().ok().and_then(|mut l| l.take())
}

/// Run `f`, turning a panic into `Err("message @ file:line")`
pub fn catch<R>(f: impl FnOnce() -> R) -> Result<R, String> {
    let _ = take_last_panic();
    match std::panic::catch_unwind(std::panic::AssertUnwindSafe(f)) {
        Ok(r) => Ok(r),
        Err(_) => Err(take_last_panic().unwrap_or_else(|| "panic (no message)".to_string())),
    }
}

/// Replace every run of ASCII digits by `N` and cut overlong text: the result is what
/// violation *classes* are keyed on, so that two inputs tripping the same defect
/// are the same class.
pub fn normalize_message(msg: &str) -> String {
    let mut out = String::with_capacity(msg.len());
    let mut in_digits = false;
    // text quoted in backticks is data (file contents, identifiers): fold it, unless it
    // is the fixed wording of a std message such as `Option::unwrap()`
    let mut folded = String::with_capacity(msg.len());
    let mut parts = msg.split('`');
    if let Some(first) = parts.next() {
        folded.push_str(first);
    }
    let mut inside = true;
    for p in parts {
        if inside {
            if p.contains("::") || p.contains("()") {
                folded.push('`');
                folded.push_str(p);
                folded.push('`');
            } else {
                folded.push_str("`_`");
            }
        } else {
            folded.push_str(p);
        }
        inside = !inside;
    }
    let msg = folded.replace(|c: char| !c.is_ascii(), "?");
    for c in msg.chars() {
        if c.is_ascii_digit() {
            if !in_digits {
                out.push('N');
            }
            in_digits = true;
        } else {
            in_digits = false;
            out.push(c);
        }
        if out.len() > 240 {
            break;
        }
    }
    out
}

/// As `normalize_message`, but keeps the line number of a trailing " @ file:line"
pub fn normalize_panic(msg: &str) -> String {
    match msg.rsplit_once(" @ ") {
        Some((m, loc)) => format!("{} @ {}", normalize_message(m), loc),
        None => normalize_message(msg),
    }
}

// ----- scratch trees ----------------------------------------------------------------

pub fn copy_tree(from: &Path, to: &Path) -> std::io::Result<()> {
    std::fs::create_dir_all(to)?;
    for entry in std::fs::read_dir(from)? {
        let entry = entry?;
        let target = to.join(entry.file_name());
        if entry.file_type()?.is_dir() {
            copy_tree(&entry.path(), &target)?;
        } else {
            std::fs::copy(entry.path(), &target)?;
        }
    }
    Ok(())
}

/// Remove whatever is at `path` (file, symlink, directory tree); absent is fine
pub fn remove_any(path: &Path) {
    if let Ok(meta) = std::fs::symlink_metadata(path) {
        if meta.is_dir() {
            let _ = std::fs::remove_dir_all(path);
        } else {
            let _ = std::fs::remove_file(path);
        }
    }
}

pub fn scratch_base() -> PathBuf {
    let shm = Path::new("/dev/shm");
    let base = if shm.is_dir() {
        shm.to_path_buf()
    } else {
        std::env::temp_dir()
    };
    base.join("geodesy-verif")
}

/// A per-process scratch root, removed on drop
pub struct Scratch {
    pub root: PathBuf,
}

impl Scratch {
    pub fn new(tag: &str) -> Scratch {
        let root = scratch_base().join(format!("{}-{}", tag, std::process::id()));
        remove_any(&root);
        std::fs::create_dir_all(&root).expect("cannot create scratch root");
        Scratch { root }
    }
}

impl Drop for Scratch {
    fn drop(&mut self) {
        // Never sit inside the directory we are about to remove
        let _ = std::env::set_current_dir("/");
        remove_any(&self.root);
    }
}

pub fn f64_bits_eq(a: f64, b: f64) -> bool {
    (a.is_nan() && b.is_nan()) || a.to_bits() == b.to_bits()
}

pub fn fmt_f64(v: f64) -> String {
    if v.is_nan() {
        "NaN".to_string()
    } else {
        format!("{:?}", v)
    }
}
