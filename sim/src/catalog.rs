//! Operator definitions and coordinate generators shared by the engines.
//! Every definition here was validated to instantiate on the unchanged tree
//! (DESIGN.md, Appendix A). `plain` marks definitions that need the Plain
//! context (grids, file based macros).

use crate::rng::Rng;

#[derive(Clone, Copy, Debug, PartialEq, Eq)]
pub enum Domain {
    GeoRad,
    GeoDeg,
    Cart,
    Proj,
    Small,
}

pub struct Entry {
    pub def: &'static str,
    pub domain: Domain,
    pub plain: bool,
}

const fn e(def: &'static str, domain: Domain) -> Entry {
    Entry {
        def,
        domain,
        plain: false,
    }
}
const fn p(def: &'static str, domain: Domain) -> Entry {
    Entry {
        def,
        domain,
        plain: true,
    }
}

use Domain::*;

pub const ELEMENTARY: &[Entry] = &[
    e("addone", Small),
    e("noop", Small),
    e("longlat", GeoRad),
    e("latlon", GeoRad),
    e("latlong", GeoRad),
    e("lonlat", GeoRad),
    e("adapt from=neuf_deg to=enuf_gon", GeoDeg),
    e("adapt from=neuf", GeoRad),
    e("geo:in", GeoDeg),
    e("gis:out", GeoRad),
    e("axisswap order=2,-1", Small),
    e("axisswap order=4,-3,2,-1", Small),
    e("btmerc k_0=0.9996 lon_0=9 x_0=500000", GeoRad),
    e("butm zone=32", GeoRad),
    e("butm zone=32 south", GeoRad),
    e("tmerc k_0=0.9996 lon_0=9 x_0=500000", GeoRad),
    e("utm zone=32", GeoRad),
    e("utm zone=32 inv", Proj),
    e(
        "tmerc lat_0=49 lon_0=-2 k_0=0.9996012717 x_0=400000 y_0=-100000 ellps=airy",
        GeoRad,
    ),
    e("cart", GeoRad),
    e("cart ellps=intl", GeoRad),
    e("cart ellps=6378137,298.257222101", GeoRad),
    e("cart ellps=6378137,298.257223563", GeoRad),
    e("tmerc lon_0=9 ellps=6378137,298.257222101", GeoRad),
    e("tmerc lon_0=9 ellps=6378137,298.257223563", GeoRad),
    e("cart inv", Cart),
    e("curvature meridian", GeoRad),
    e("curvature prime", GeoRad),
    e("curvature gaussian", GeoRad),
    e("curvature mean", GeoRad),
    e("curvature azimuthal", GeoRad),
    e("dm", GeoRad),
    e("dms", GeoRad),
    e("geodesic", GeoDeg),
    e("geodesic reversible", GeoDeg),
    e("gravity grs80 ellps=GRS80", GeoRad),
    e("gravity cassinis ellps=intl", GeoRad),
    e("helmert x=-87 y=-96 z=-120", Cart),
    e(
        "helmert translation=-87,-96,-120 rotation=0.1,0.2,0.3 scale=1.5 convention=position_vector",
        Cart,
    ),
    e(
        "helmert x=1 y=2 z=3 rx=0.1 ry=0.2 rz=0.3 s=1 exact convention=coordinate_frame",
        Cart,
    ),
    e("helmert x=1 dx=0.01 dy=0.02 dz=0.03 t_epoch=2000", Cart),
    e("helmert x=1 dx=1 t_epoch=2000", Small),
    e(
        "helmert x=1 y=2 z=3 rx=0.1 ry=0.2 rz=0.3 s=1 dx=0.01 drx=0.001 dry=0.002 drz=0.003 ds=0.01 t_epoch=2010 convention=position_vector",
        Cart,
    ),
    e(
        "helmert x=1 y=2 z=3 rx=0.1 ry=0.2 rz=0.3 s=1 dx=0.01 drx=0.001 dry=0.002 drz=0.003 ds=0.01 t_epoch=2010 convention=coordinate_frame exact",
        Cart,
    ),
    e("helmert x=1 dx=0.01 t_epoch=2000 t_obs=2015", Cart),
    e("helmert ds=0.5 t_epoch=1994 inv", Cart),
    e(
        "laea ellps=GRS80 lat_0=52 lon_0=10 x_0=4321000 y_0=3210000",
        GeoRad,
    ),
    e("laea lat_0=90", GeoRad),
    e("laea lat_0=0 lon_0=10", GeoRad),
    e("latitude authalic", GeoRad),
    e("latitude conformal", GeoRad),
    e("latitude geocentric", GeoRad),
    e("latitude parametric", GeoRad),
    e("latitude rectifying", GeoRad),
    e("latitude reduced", GeoRad),
    e("lcc lat_1=57 lon_0=12", GeoRad),
    e(
        "lcc lat_1=33 lat_2=45 lat_0=35 lon_0=10 x_0=12345 y_0=67890 k_0=0.99",
        GeoRad,
    ),
    e("merc", GeoRad),
    e("merc lat_ts=56", GeoRad),
    e("webmerc", GeoRad),
    e(
        "molodensky dx=-87 dy=-96 dz=-120 da=-251 df=-0.14192702 ellps=intl",
        GeoRad,
    ),
    e(
        "molodensky dx=-87 dy=-96 dz=-120 da=-251 df=-0.14192702 ellps=intl abridged",
        GeoRad,
    ),
    e(
        "omerc ellps=evrstSS variant x_0=590476.87 y_0=442857.65 latc=4 lonc=115 k_0=0.99984 alpha=53:18:56.9537 gamma_c=53:07:48.3685",
        GeoRad,
    ),
    e("omerc latc=55 lonc=10 alpha=30", GeoRad),
    e("permtide from=mean to=zero ellps=GRS80", GeoRad),
    e(
        "somerc lat_0=46.9524055555556 lon_0=7.43958333333333 k_0=1 x_0=2600000 y_0=1200000 ellps=bessel",
        GeoRad,
    ),
    e(
        "unitconvert xy_in=us-ft xy_out=m z_in=us-ft z_out=m",
        Proj,
    ),
    e("unitconvert xy_in=grad xy_out=deg", GeoDeg),
    // grid based (Plain only)
    p("deflection grids=test.geoid", GeoRad),
    p("deformation dt=1000 grids=test.deformation", Cart),
    p("deformation t_epoch=2000 grids=test.deformation", Cart),
    p(
        "deformation raw dt=1000 grids=@another_test.deformation,test.deformation",
        Cart,
    ),
    p("gridshift grids=test.datum", GeoRad),
    p("gridshift grids=test.geoid", GeoRad),
    p("gridshift grids=test.datum, @null", GeoRad),
    p("gridshift grids=5458.gsb, 5458_with_subgrid.gsb", GeoRad),
    p("gridshift grids=100800401.gsb", GeoRad),
    p("gridshift grids=5458_with_subgrid.gsb", GeoRad),
    p("gridshift grids=5458_with_subgrid.gsb inv", GeoRad),
    p("gridshift grids=test_subset.datum, test.datum", GeoRad),
    p("gridshift grids=5458_with_subgrid.gsb, test.datum", GeoRad),
    p(
        "gridshift grids=@test_subset.datum, @missing.gsb, test.datum",
        GeoRad,
    ),
    p("gridshift grids=test.datum inv", GeoRad),
    p("stupid:way", Small),
];

pub const PIPELINES: &[Entry] = &[
    e("geo:in | utm zone=32 | neu:out", GeoDeg),
    e(
        "cart ellps=intl | helmert x=-87 y=-96 z=-120 | cart inv ellps=GRS80",
        GeoRad,
    ),
    e("cart | helmert x=1 dx=0.01 t_epoch=2000 | cart inv", GeoRad),
    e(
        "cart | helmert x=1 y=2 z=3 rx=0.1 ry=0.2 rz=0.3 drx=0.01 ds=0.1 t_epoch=2005 convention=position_vector | cart inv",
        GeoRad,
    ),
    e(
        "stack push=1,2,3,4 | helmert x=4 y=4 z=4 | stack flip=1,2",
        Small,
    ),
    e("stack push=1,2,3,4 | stack roll=3,2 | stack pop=1,2", Small),
    e("stack push=2,1 | stack swap | stack pop=1,2", Small),
    e("stack push=1 | stack pop=1,2", Small),
    e("stack push=3,4 | addone | stack pop=4", Small),
    e("push v_1 v_2|addone|pop v_2 v_1 v_3", Small),
    e("push v_1 v_2 v_3 omit_inv|pop v_1 v_2", Small),
    e("addone > addone < addone inv | addone", Small),
    e("utm zone=32 inv | geo:out", Proj),
    e(
        "geo:in | helmert x=1 dx=1 t_epoch=2000 | stack push=4 | addone | stack pop=4",
        GeoDeg,
    ),
    p("stupid:addthree_one_by_one", Small),
    p("stupid:way_too | stupid:way", Small),
    p(
        "gridshift grids=test.datum | helmert z=1 dz=1 t_epoch=2000 | gridshift grids=test.geoid",
        GeoRad,
    ),
    p(
        "cart | deformation t_epoch=2000 grids=test.deformation | cart inv",
        GeoRad,
    ),
];

/// Steps that only make sense inside a pipeline (generated pipelines draw from these too)
pub const STACK_STEPS: &[&str] = &[
    "stack push=1,2",
    "stack push=4",
    "stack push=3,4,1",
    "stack pop=1",
    "stack pop=2,1",
    "stack pop=4",
    "stack swap",
    "stack roll=2,1",
    "stack roll=3,2",
    "stack unroll=3,2",
    "stack flip=1",
    "stack flip=1,2",
    "push v_1 v_2",
    "pop v_2 v_1",
    "push v_4",
    "pop v_4",
];

pub const EPOCHS: &[f64] = &[
    1994.0,
    2000.0,
    2001.0,
    2002.0,
    2010.25,
    2015.0,
    2020.75,
    0.0,
    f64::NAN,
];

pub const POISON: &[f64] = &[
    f64::NAN,
    f64::INFINITY,
    f64::NEG_INFINITY,
    1e300,
    -1e300,
    0.0,
    -0.0,
    1e-310,
    90.0,
    -180.0,
    std::f64::consts::FRAC_PI_2,
    std::f64::consts::PI,
];

/// Coordinates are rounded to a 2^-20 grid of "nice" values now and then, so that
/// duplicates and exactly representable values occur.
pub fn gen_tuple(rng: &mut Rng, domain: Domain) -> [f64; 4] {
    let mut c = match domain {
        GeoRad => {
            let lon = rng.uniform(5.0, 19.0_f64).to_radians();
            let lat = rng.uniform(52.0, 60.0_f64).to_radians();
            [lon, lat, rng.uniform(-50.0, 3000.0), 0.0]
        }
        GeoDeg => [
            rng.uniform(52.0, 60.0),
            rng.uniform(5.0, 19.0),
            rng.uniform(-50.0, 3000.0),
            0.0,
        ],
        Cart => {
            let lon = rng.uniform(5.0, 19.0_f64).to_radians();
            let lat = rng.uniform(52.0, 60.0_f64).to_radians();
            let r = 6_371_000.0 + rng.uniform(-100.0, 5000.0);
            [
                r * lat.cos() * lon.cos(),
                r * lat.cos() * lon.sin(),
                r * lat.sin(),
                0.0,
            ]
        }
        Proj => [
            rng.uniform(200_000.0, 900_000.0),
            rng.uniform(5_500_000.0, 6_700_000.0),
            rng.uniform(-50.0, 3000.0),
            0.0,
        ],
        Small => [
            rng.range(-20, 20) as f64,
            rng.range(-20, 20) as f64,
            rng.range(-20, 20) as f64,
            0.0,
        ],
    };
    // members on, or a hair's breadth off, the edges of the shipped grids and of the
    // sub-grid of 5458_with_subgrid.gsb (54..58N 8..16E; child 55..56N 12..14E)
    if matches!(domain, GeoRad | GeoDeg) && rng.chance(0.12) {
        const EDGE_LAT: [f64; 5] = [54.0, 55.0, 55.5, 56.0, 58.0];
        const EDGE_LON: [f64; 5] = [8.0, 12.0, 13.0, 14.0, 16.0];
        // offsets in radians: exact, within the 1e-6 rad edge tolerance, just beyond it
        const OFF: [f64; 9] = [0.0, 1e-7, -1e-7, 5e-7, -5e-7, 2e-6, -2e-6, 1e-5, -1e-5];
        let mut lat = rng.uniform(54.0, 58.0);
        let mut lon = rng.uniform(8.0, 16.0);
        let (mut dlat, mut dlon) = (0.0, 0.0);
        match rng.below(3) {
            0 => {
                lat = *rng.pick(&EDGE_LAT);
                dlat = *rng.pick(&OFF);
            }
            1 => {
                lon = *rng.pick(&EDGE_LON);
                dlon = *rng.pick(&OFF);
            }
            _ => {
                lat = *rng.pick(&EDGE_LAT);
                lon = *rng.pick(&EDGE_LON);
                dlat = *rng.pick(&OFF);
                dlon = *rng.pick(&OFF);
            }
        }
        if domain == GeoRad {
            c[0] = lon.to_radians() + dlon;
            c[1] = lat.to_radians() + dlat;
        } else {
            c[0] = lat + dlat.to_degrees();
            c[1] = lon + dlon.to_degrees();
        }
        return c;
    }
    // world-wide members now and then
    if rng.chance(0.08) {
        match domain {
            GeoRad => {
                c[0] = rng.uniform(-3.2, 3.2);
                c[1] = rng.uniform(-1.6, 1.6);
            }
            GeoDeg => {
                c[0] = rng.uniform(-91.0, 91.0);
                c[1] = rng.uniform(-181.0, 181.0);
            }
            _ => {}
        }
    }
    c
}

pub fn gen_tuples(rng: &mut Rng, preferred: Domain, n: usize) -> Vec<[f64; 4]> {
    let domains = [GeoRad, GeoDeg, Cart, Proj, Small];
    let main = if rng.chance(0.8) {
        preferred
    } else {
        *rng.pick(&domains)
    };
    // epochs: 1..5 distinct values interleaved
    let k = 1 + rng.below(5);
    let mut epochs = Vec::new();
    for _ in 0..k {
        epochs.push(*rng.pick(EPOCHS));
    }
    let poison_rate = *rng.pick(&[0.0, 0.0, 0.05, 0.15, 0.4]);
    let dup_rate = *rng.pick(&[0.0, 0.1, 0.3]);
    let mut out: Vec<[f64; 4]> = Vec::with_capacity(n);
    for i in 0..n {
        if i > 0 && rng.chance(dup_rate) {
            // a duplicate of an earlier member (often the one just before), possibly at
            // another epoch, possibly differing from it in the sign of a zero only
            let j = if rng.chance(0.5) { i - 1 } else { rng.below(i) };
            let mut c = out[j];
            if rng.chance(0.4) {
                c[3] = *rng.pick(&epochs);
            }
            if rng.chance(0.3) {
                for v in c.iter_mut() {
                    if *v == 0.0 {
                        *v = -*v;
                    }
                }
            }
            out.push(c);
            continue;
        }
        let d = if rng.chance(0.9) {
            main
        } else {
            *rng.pick(&domains)
        };
        let mut c = gen_tuple(rng, d);
        c[3] = *rng.pick(&epochs);
        if rng.chance(0.04) {
            c[rng.below(3)] = if rng.chance(0.5) { 0.0 } else { -0.0 };
        }
        if rng.chance(poison_rate) {
            let which = rng.below(4);
            c[which] = *rng.pick(POISON);
            if rng.chance(0.3) {
                c = [*rng.pick(POISON); 4];
            }
        }
        out.push(c);
    }
    out
}

/// Replace some numeric parameter values by seeded nearby ones, so that no check
/// silently depends on the one parameterisation the catalogue happens to list
/// (an instantiation failure just makes the run trivial)
pub fn perturb(rng: &mut Rng, def: &str) -> String {
    let mut out = String::with_capacity(def.len() + 8);
    for (i, tok) in def.split(' ').enumerate() {
        if i > 0 {
            out.push(' ');
        }
        let replaced = (|| {
            let (key, val) = tok.split_once('=')?;
            if ["grids", "order", "from", "to", "convention", "ellps", "push", "pop", "roll", "unroll", "flip", "xy_in", "xy_out", "z_in", "z_out", "translation", "rotation"].contains(&key) {
                return None;
            }
            let v: f64 = val.parse().ok()?;
            if !rng.chance(0.35) {
                return None;
            }
            let nv = match key {
                "zone" => rng.range(1, 60) as f64,
                "t_epoch" | "t_obs" => *rng.pick(&[1994.0, 2000.0, 2010.5, 2020.0]),
                "dt" => *rng.pick(&[1.0, 10.0, 1000.0, -5.0]),
                "lat_0" | "lat_1" | "lat_2" | "lat_ts" | "latc" => (v + rng.range(-10, 10) as f64).clamp(-89.0, 89.0),
                "lon_0" | "lonc" => v + rng.range(-20, 20) as f64,
                "k_0" => *rng.pick(&[1.0, 0.9996, 0.99, 1.01]),
                _ => {
                    if v == v.trunc() {
                        v + rng.range(-3, 3) as f64
                    } else {
                        v * *rng.pick(&[0.5, 1.0, 2.0, -1.0])
                    }
                }
            };
            Some(format!("{}={}", key, nv))
        })();
        match replaced {
            Some(t) => out.push_str(&t),
            None => out.push_str(tok),
        }
    }
    out
}

/// A seeded definition: catalogue entry, catalogue pipeline or generated pipeline
pub fn gen_definition(rng: &mut Rng, plain: bool) -> (String, Domain) {
    let (def, domain) = gen_definition_plain(rng, plain);
    if rng.chance(0.4) {
        (perturb(rng, &def), domain)
    } else {
        (def, domain)
    }
}

fn gen_definition_plain(rng: &mut Rng, plain: bool) -> (String, Domain) {
    let pool = |rng: &mut Rng, table: &'static [Entry]| -> &'static Entry {
        loop {
            let entry = &table[rng.below(table.len())];
            if plain || !entry.plain {
                return entry;
            }
        }
    };
    match rng.weighted(&[45, 20, 35]) {
        0 => {
            let entry = pool(rng, ELEMENTARY);
            (entry.def.to_string(), entry.domain)
        }
        1 => {
            let entry = pool(rng, PIPELINES);
            (entry.def.to_string(), entry.domain)
        }
        _ => {
            // generated pipeline: 2..5 steps
            let n = 2 + rng.below(4);
            let mut steps: Vec<String> = Vec::new();
            let mut domain = Small;
            for i in 0..n {
                if rng.chance(0.3) {
                    steps.push(rng.pick(STACK_STEPS).to_string());
                    continue;
                }
                let entry = pool(rng, ELEMENTARY);
                if i == 0 || steps.is_empty() {
                    domain = entry.domain;
                }
                let mut step = entry.def.to_string();
                if rng.chance(0.2) && !step.contains(" inv") {
                    step.push_str(" inv");
                }
                if rng.chance(0.08) {
                    step.push_str(" omit_fwd");
                } else if rng.chance(0.08) {
                    step.push_str(" omit_inv");
                }
                steps.push(step);
            }
            (steps.join(" | "), domain)
        }
    }
}
