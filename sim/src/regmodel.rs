//! Reference model of name resolution for C18, written from the documentation:
//! pipeline -> user registered operator (names without colon) -> macro (names with
//! colon: run-time registrations first, then for Plain per search root
//! `<prefix>_<suffix>.resource`, then the fenced item in `<prefix>.md`) -> built-in
//! -> error. Operators are restricted to an exactly representable translation
//! algebra, so the model predicts results bit for bit without library arithmetic.

use std::collections::BTreeMap;

#[derive(Clone, Debug, PartialEq)]
pub enum Val {
    /// adds this vector (forward), subtracts it (inverse)
    Exact([f64; 4]),
    /// a valid operator the algebra cannot express (e.g. a built-in adaptor)
    Opaque,
}

impl Val {
    fn neg(self) -> Val {
        match self {
            Val::Exact(t) => Val::Exact([-t[0], -t[1], -t[2], -t[3]]),
            Val::Opaque => Val::Opaque,
        }
    }
    fn add(self, o: Val) -> Val {
        match (self, o) {
            (Val::Exact(a), Val::Exact(b)) => Val::Exact([a[0] + b[0], a[1] + b[1], a[2] + b[2], a[3] + b[3]]),
            _ => Val::Opaque,
        }
    }
}

/// Harness operator constructors
#[derive(Clone, Copy, Debug, PartialEq, Eq)]
pub enum Ctor {
    /// second coordinate += k (default 7)
    AddK,
    /// first coordinate += 100
    Shadow100,
    /// constructor that always refuses
    Refuse,
}

#[derive(Clone, Debug, Default)]
pub struct CtxModel {
    pub plain: bool,
    pub resources: BTreeMap<String, String>,
    pub user_ops: BTreeMap<String, Ctor>,
}

/// What is on the simulated disk under one search root
#[derive(Clone, Debug, Default)]
pub struct RootModel {
    /// file name under resources/ -> text, None when unreadable as text (directory, bad UTF-8, dangling link)
    pub resources: BTreeMap<String, Option<String>>,
    /// grid file name -> version of the constant geoid grid it holds
    pub grids: BTreeMap<String, u32>,
}

#[derive(Clone, Debug, Default)]
pub struct World {
    pub ctxs: Vec<CtxModel>,
    pub roots: [RootModel; 2],
    /// process wide grid cache: name -> version held
    pub cache: BTreeMap<String, u32>,
    /// versions of each grid that some operator of this run has loaded (and, operators
    /// being kept alive, may still be shared by a cache that holds weak references)
    pub ever_loaded: BTreeMap<String, std::collections::BTreeSet<u32>>,
    /// when set for a name: the version a lookup of that name delivers, whatever cache
    /// and disk say (used to explore which of the admissible versions a lookup took)
    pub choice: BTreeMap<String, u32>,
}

pub const BUILTIN_ADAPTORS: [&str; 8] = ["geo:in", "geo:out", "gis:in", "gis:out", "neu:in", "neu:out", "enu:in", "enu:out"];

fn param<'a>(tokens: &'a [&'a str], key: &str) -> Option<&'a str> {
    // the last of repeated keys wins
    tokens.iter().rev().find_map(|t| t.strip_prefix(key).and_then(|r| r.strip_prefix('=')))
}

/// Extract a fenced item from a register, as documented
pub fn register_item(text: &str, suffix: &str) -> Option<String> {
    let text = text.replace('\r', "\n");
    let tag = format!("```geodesy:{}\n", suffix);
    let start = text.find(&tag)? + tag.len();
    let rest = &text[start..];
    let body = match rest.find("```") {
        Some(end) => &rest[..end],
        None => rest,
    };
    Some(body.trim().to_string())
}

impl World {
    /// The macro text `name` resolves to in context `c`, if any
    pub fn macro_text(&self, c: usize, name: &str) -> Option<String> {
        let ctx = &self.ctxs[c];
        if let Some(t) = ctx.resources.get(name) {
            return Some(t.clone());
        }
        if !ctx.plain {
            return None;
        }
        let parts: Vec<&str> = name.split(':').collect();
        if parts.len() != 2 {
            return None;
        }
        let (prefix, suffix) = (parts[0], parts[1]);
        for root in &self.roots {
            if let Some(Some(text)) = root.resources.get(&format!("{}_{}.resource", prefix, suffix)) {
                return Some(text.trim().to_string());
            }
            if let Some(Some(text)) = root.resources.get(&format!("{}.md", prefix)) {
                if let Some(item) = register_item(text, suffix) {
                    return Some(item);
                }
            }
        }
        None
    }

    /// Version a grid lookup delivers now (and what it leaves in the cache)
    pub fn grid_lookup(&mut self, c: usize, name: &str) -> Option<u32> {
        if !self.ctxs[c].plain {
            return None;
        }
        if let Some(v) = self.choice.get(name).copied() {
            self.cache.insert(name.to_string(), v);
            self.ever_loaded.entry(name.to_string()).or_default().insert(v);
            return Some(v);
        }
        if let Some(v) = self.cache.get(name).copied() {
            self.ever_loaded.entry(name.to_string()).or_default().insert(v);
            return Some(v);
        }
        if let Some(v) = self.disk_version(name) {
            self.cache.insert(name.to_string(), v);
            self.ever_loaded.entry(name.to_string()).or_default().insert(v);
            return Some(v);
        }
        None
    }

    /// The version of a grid file a lookup would read from disk now
    pub fn disk_version(&self, name: &str) -> Option<u32> {
        self.roots.iter().find_map(|r| r.grids.get(name).copied())
    }

    /// Number of entries the step list of the operator instantiated from `def` has
    /// (a macro is its body; a single operator is one step)
    pub fn step_count(&self, c: usize, def: &str, depth: usize) -> Option<usize> {
        if depth > 100 {
            return None;
        }
        let clean: String = def.lines().map(|l| l.split('#').next().unwrap_or("")).collect::<Vec<_>>().join(" ");
        let steps: Vec<&str> = clean.split('|').map(|s| s.trim()).filter(|s| !s.is_empty()).collect();
        if steps.len() != 1 {
            return Some(steps.len());
        }
        let name = steps[0].split_whitespace().next()?;
        if name.contains(':') {
            let text = self.macro_text(c, name)?;
            if text.starts_with('\u{1}') {
                return Some(1);
            }
            return self.step_count(c, &text, depth + 1);
        }
        Some(1)
    }

    /// Instantiate `def` in context `c`: the operator's value, or None for an error
    pub fn eval(&mut self, c: usize, def: &str, depth: usize) -> Option<Val> {
        if depth > 100 {
            return None;
        }
        // PROJ syntax (a single step with a proj=NAME element, optional '+' prefixes) is
        // translated by the Plain context only, at the top level: "+proj=a +k=3" means "a k=3"
        let translated: String;
        let def = if depth == 0 && self.ctxs[c].plain && def.contains("proj=") && !def.contains('|') {
            let mut name = String::new();
            let mut rest: Vec<String> = Vec::new();
            for tok in def.split_whitespace() {
                let tok = tok.trim_start_matches('+');
                match tok.strip_prefix("proj=") {
                    Some(n) => name = n.to_string(),
                    None => rest.push(tok.to_string()),
                }
            }
            translated = format!("{} {}", name, rest.join(" "));
            translated.as_str()
        } else {
            def
        };
        // comments: everything from '#' to the end of the line
        let clean: String = def.lines().map(|l| l.split('#').next().unwrap_or("")).collect::<Vec<_>>().join(" ");
        let steps: Vec<&str> = clean.split('|').map(|s| s.trim()).filter(|s| !s.is_empty()).collect();
        if steps.is_empty() {
            return None;
        }
        if steps.len() > 1 {
            let mut total = Val::Exact([0.0; 4]);
            for s in steps {
                // every step is instantiated, even after a failure would already be known
                let v = self.eval_step(c, s, depth + 1)?;
                total = total.add(v);
                // inside a pipeline the stack handlers really move data around: the
                // result is no longer a sum of translations
                let name = s.split_whitespace().next().unwrap_or("");
                if ["stack", "push", "pop"].contains(&name) {
                    total = Val::Opaque;
                }
            }
            return Some(total);
        }
        self.eval_step(c, steps[0], depth)
    }

    fn eval_step(&mut self, c: usize, step: &str, depth: usize) -> Option<Val> {
        if depth > 100 {
            return None;
        }
        // a comma separated list may be written with blanks after the commas
        let mut step = step.to_string();
        while step.contains(", ") {
            step = step.replace(", ", ",");
        }
        let tokens: Vec<&str> = step.split_whitespace().collect();
        let name = *tokens.first()?;
        let inv = tokens[1..].contains(&"inv");
        let value = if !name.contains(':') {
            if let Some(ctor) = self.ctxs[c].user_ops.get(name).copied() {
                match ctor {
                    Ctor::AddK => {
                        let k: f64 = param(&tokens, "k").and_then(|v| v.parse().ok()).unwrap_or(7.0);
                        Val::Exact([0.0, k, 0.0, 0.0])
                    }
                    Ctor::Shadow100 => Val::Exact([100.0, 0.0, 0.0, 0.0]),
                    Ctor::Refuse => return None,
                }
            } else {
                self.builtin(c, name, &tokens)?
            }
        } else {
            let text = self.macro_text(c, name)?;
            if text.starts_with('\u{1}') {
                // a built-in adaptor: resolves, but to something outside the algebra
                Val::Opaque
            } else {
                self.eval(c, &text, depth + 1)?
            }
        };
        Some(if inv { value.neg() } else { value })
    }

    fn builtin(&mut self, c: usize, name: &str, tokens: &[&str]) -> Option<Val> {
        match name {
            "addone" => Some(Val::Exact([1.0, 0.0, 0.0, 0.0])),
            "noop" => Some(Val::Exact([0.0; 4])),
            // the pipeline handlers, instantiated on their own (outside a pipeline), leave
            // the coordinates alone; `stack` needs a sub-command; `pipeline` alone is an error
            "push" | "pop" => Some(Val::Exact([0.0; 4])),
            "stack" => {
                if ["push", "pop", "roll", "unroll", "swap", "flip"].iter().any(|k| param(tokens, k).is_some() || tokens[1..].contains(k)) {
                    Some(Val::Exact([0.0; 4]))
                } else {
                    None
                }
            }
            "helmert" => {
                let g = |k: &str| -> f64 { param(tokens, k).and_then(|v| v.parse().ok()).unwrap_or(0.0) };
                // with rates the translation depends on the tuple's epoch: a valid operator
                // (given t_epoch) whose values are outside the constant-translation algebra
                let dynamic = ["dx", "dy", "dz"].iter().any(|k| g(k) != 0.0);
                if dynamic {
                    return if param(tokens, "t_epoch").is_some() { Some(Val::Opaque) } else { None };
                }
                Some(Val::Exact([g("x"), g("y"), g("z"), 0.0]))
            }
            "gridshift" => {
                let grids = param(tokens, "grids")?;
                let mut total = 0.0;
                let mut any = false;
                // a grid whose values the algebra cannot express takes part in the result
                let mut opaque = false;
                for g in grids.split(',') {
                    let g = g.trim();
                    let optional = g.starts_with('@');
                    let g = g.trim_start_matches('@');
                    if g == "null" {
                        break;
                    }
                    match self.grid_lookup(c, g) {
                        Some(v) => {
                            if g.ends_with(".gsb") {
                                opaque = true;
                            }
                            // first grid containing the point wins; all our grids cover the probes
                            if !any {
                                total = v as f64;
                                any = true;
                            }
                        }
                        None => {
                            if !optional {
                                return None;
                            }
                        }
                    }
                }
                if opaque {
                    return Some(Val::Opaque);
                }
                Some(Val::Exact([0.0, 0.0, -total, 0.0]))
            }
            _ => None,
        }
    }
}
