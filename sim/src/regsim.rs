//! C18, sequential part: seeded histories over several contexts, the two search
//! roots on a scratch disk and the process wide grid cache, against `regmodel`.

use crate::engine::{Engine, EngineInfo, Recorder, Tier};
use crate::gridcodec::GravsoftSpec;
use crate::regmodel::{Ctor, CtxModel, Val, World};
use crate::rng::Rng;
use crate::util::{self, catch, Hash128, Scratch};
use geodesy::authoring::*;
use serde::{Deserialize, Serialize};
use std::collections::BTreeSet;
use std::path::PathBuf;

// ----- harness operators ------------------------------------------------------------

fn addk_fwd(op: &Op, _ctx: &dyn Context, operands: &mut dyn CoordinateSet) -> usize {
    let k = op.params.real("k").unwrap_or(7.0);
    for i in 0..operands.len() {
        let mut c = operands.get_coord(i);
        c[1] += k;
        operands.set_coord(i, &c);
    }
    operands.len()
}
fn addk_inv(op: &Op, _ctx: &dyn Context, operands: &mut dyn CoordinateSet) -> usize {
    let k = op.params.real("k").unwrap_or(7.0);
    for i in 0..operands.len() {
        let mut c = operands.get_coord(i);
        c[1] -= k;
        operands.set_coord(i, &c);
    }
    operands.len()
}
const ADDK_GAMUT: [OpParameter; 2] = [OpParameter::Flag { key: "inv" }, OpParameter::Real { key: "k", default: Some(7.0) }];
fn addk_new(parameters: &RawParameters, ctx: &dyn Context) -> Result<Op, Error> {
    Op::plain(parameters, InnerOp(addk_fwd), Some(InnerOp(addk_inv)), &ADDK_GAMUT, ctx)
}
fn shadow_fwd(_op: &Op, _ctx: &dyn Context, operands: &mut dyn CoordinateSet) -> usize {
    for i in 0..operands.len() {
        let mut c = operands.get_coord(i);
        c[0] += 100.0;
        operands.set_coord(i, &c);
    }
    operands.len()
}
fn shadow_inv(_op: &Op, _ctx: &dyn Context, operands: &mut dyn CoordinateSet) -> usize {
    for i in 0..operands.len() {
        let mut c = operands.get_coord(i);
        c[0] -= 100.0;
        operands.set_coord(i, &c);
    }
    operands.len()
}
const SHADOW_GAMUT: [OpParameter; 1] = [OpParameter::Flag { key: "inv" }];
fn shadow_new(parameters: &RawParameters, ctx: &dyn Context) -> Result<Op, Error> {
    Op::plain(parameters, InnerOp(shadow_fwd), Some(InnerOp(shadow_inv)), &SHADOW_GAMUT, ctx)
}
fn refuse_new(_parameters: &RawParameters, _ctx: &dyn Context) -> Result<Op, Error> {
    Err(Error::MissingParam("this constructor refuses everything".to_string()))
}

pub fn constructor(ctor: u8) -> (OpConstructor, Ctor) {
    match ctor % 3 {
        0 => (OpConstructor(addk_new), Ctor::AddK),
        1 => (OpConstructor(shadow_new), Ctor::Shadow100),
        _ => (OpConstructor(refuse_new), Ctor::Refuse),
    }
}

// ----- Plan -------------------------------------------------------------------------

#[derive(Serialize, Deserialize, Clone, Debug, PartialEq)]
pub enum Ev {
    RegisterResource { ctx: u8, name: String, text: String },
    RegisterOp { ctx: u8, name: String, ctor: u8 },
    Op { ctx: u8, def: String },
    /// as `Op`, but the call is made from a freshly spawned OS thread (joined at once):
    /// handles must be unique and contexts must behave the same whichever thread calls
    OpOnThread { ctx: u8, def: String },
    /// use operator #op through context `ctx` (which may not be its owner)
    Apply { ctx: u8, op: u16, inv: bool },
    Steps { ctx: u8, op: u16 },
    Params { ctx: u8, op: u16, index: u8 },
    Forged { ctx: u8 },
    /// `count` instantiations of unknown names in a row (each must fail, and must not
    /// change what later definitions resolve to)
    FailStorm { ctx: u8, count: u16 },
    /// `count` valid instantiations in a row: handles stay unique, old operators stay put
    OpBurst { ctx: u8, count: u32 },
    /// `count` registrations in a row (macros bulk:0.. and operators bulkop0..)
    RegisterBurst { ctx: u8, count: u16 },
    Clear,
    /// write `<file>` under `<root>/resources/`; text None = make it unreadable (`how`)
    WriteResource { root: u8, file: String, text: String },
    BreakResource { root: u8, file: String, how: u8 },
    DeleteResource { root: u8, file: String },
    WriteGrid { root: u8, name: String, version: u32 },
    DeleteGrid { root: u8, name: String },
}

#[derive(Serialize, Deserialize, Clone, Debug, PartialEq)]
pub struct PlanR {
    /// do the two geodesy/ directories exist when the contexts are created? (if not,
    /// they come into being with the first file written under them)
    #[serde(default = "yes")]
    pub roots_exist: bool,
    /// context kinds: 0 Minimal::new, 1 Minimal::default, 2 Plain::new, 3 Plain::default
    pub ctxs: Vec<u8>,
    pub events: Vec<Ev>,
    /// seed of the identifier source behind OpHandle (vendored uuid, DESIGN §2 "H3"). 0: not seeded (plans
    /// recorded before the hook existed); otherwise bit 0 selects identifiers which
    /// differ from a common base in one 16 bit field only
    #[serde(default)]
    pub ids: u64,
}

fn yes() -> bool {
    true
}

pub enum AnyCtx {
    M(Minimal),
    P(Plain),
}
impl AnyCtx {
    pub fn make(kind: u8) -> AnyCtx {
        match kind % 4 {
            0 => AnyCtx::M(Minimal::new()),
            1 => AnyCtx::M(Minimal::default()),
            2 => AnyCtx::P(Plain::new()),
            _ => AnyCtx::P(Plain::default()),
        }
    }
    pub fn get(&self) -> &dyn Context {
        match self {
            AnyCtx::M(c) => c,
            AnyCtx::P(c) => c,
        }
    }
    pub fn get_mut(&mut self) -> &mut dyn Context {
        match self {
            AnyCtx::M(c) => c,
            AnyCtx::P(c) => c,
        }
    }
}

pub fn model_ctx(kind: u8) -> CtxModel {
    let mut m = CtxModel {
        plain: kind % 4 >= 2,
        ..Default::default()
    };
    if kind % 2 == 0 {
        for a in crate::regmodel::BUILTIN_ADAPTORS {
            // what they stand for is outside the algebra
            m.resources.insert(a.to_string(), "\u{1}opaque".to_string());
        }
    }
    m
}

pub const GRID_NAMES: &[&str] = &["ga.geoid", "gb.geoid"];
/// A hierarchical NTv2 grid with varying node values (base 0..4N x 0..4E in one degree
/// cells, child 1..3N x 1..3E in half degree cells): outside the exact algebra, but an
/// operator using it must not change either
pub const NT_GRID: &str = "nt.gsb";
const DEG: f64 = std::f64::consts::PI / 180.0;
/// Probe tuples: the origin twice (node of the constant grids), a point only the NTv2
/// base grid covers, one well inside its child, and two a hair's breadth (1e-7 rad)
/// inside the child's eastern / northern edge
pub const PROBES: [[f64; 4]; 6] = [
    [0.0, 0.0, 0.0, 0.0],
    [0.0, 0.0, 50.0, 2000.0],
    [0.5 * DEG, 0.5 * DEG, 10.0, 2000.0],
    [2.0 * DEG, 2.0 * DEG, 10.0, 2000.0],
    [3.0 * DEG - 1e-7, 2.0 * DEG, 10.0, 2000.0],
    [2.0 * DEG, 3.0 * DEG - 1e-7, 10.0, 2000.0],
];

pub fn nt_grid_bytes(version: u32) -> Vec<u8> {
    use crate::gridcodec::{Ntv2Spec, SubGridSpec};
    let mut rng = Rng::new(0x0047_1D00 + version as u64);
    let mut make = |name: &str, parent: &str, s: f64, w_east: f64, rows: usize, cols: usize, inc: f64| -> SubGridSpec {
        let mut nodes = Vec::new();
        for _ in 0..rows * cols {
            nodes.push((rng.range(-400, 400) as f32 / 8.0, rng.range(-400, 400) as f32 / 8.0));
        }
        SubGridSpec {
            name: name.to_string(),
            parent: parent.to_string(),
            s_lat: s,
            n_lat: s + inc * (rows - 1) as f64,
            e_long: -(w_east + inc * (cols - 1) as f64),
            w_long: -w_east,
            lat_inc: inc,
            long_inc: inc,
            rows,
            cols,
            nodes,
        }
    };
    let base = make("BASE", "NONE", 0.0, 0.0, 5, 5, 3600.0);
    let child = make("CHILD", "BASE", 3600.0, 3600.0, 5, 5, 1800.0);
    Ntv2Spec { big_endian: version % 2 == 0, subgrids: if version % 3 == 0 { vec![child, base] } else { vec![base, child] }, meta: (version % 4) as u8 }.encode()
}

pub fn grid_bytes(version: u32) -> Vec<u8> {
    let mut g = GravsoftSpec::constant_geoid(version as f64);
    g.layout_seed = 0;
    g.encode()
}

pub struct LiveOp {
    pub ctx: usize,
    pub handle: OpHandle,
    pub expect: Val,
    pub fingerprint: u64,
}

/// Behaviour fingerprint: the output for every probe in both directions (each probe
/// applied alone, in an order decided by `order` -- the fingerprint itself is keyed by
/// probe, so for an operator without hidden state the order cannot matter), the step
/// list, and the first step's parameters
pub fn fingerprint(ctx: &dyn Context, h: OpHandle, order: u64) -> Result<u64, String> {
    catch(|| {
        let n = PROBES.len() * 2;
        let mut sequence: Vec<usize> = (0..n).collect();
        let mut r = Rng::new(order);
        r.shuffle(&mut sequence);
        let mut results = vec![[0u64; 5]; n];
        for s in sequence {
            let inv = s >= PROBES.len();
            let p = PROBES[s % PROBES.len()];
            let mut data = vec![Coor4D(p)];
            let count = ctx.apply(h, if inv { Inv } else { Fwd }, &mut data).map(|n| n as u64).unwrap_or(u64::MAX);
            results[s][4] = count;
            for k in 0..4 {
                results[s][k] = if data[0][k].is_nan() { 1 } else { data[0][k].to_bits() };
            }
        }
        let mut d = Hash128::new();
        for r in &results {
            for v in r {
                d.u64(*v);
            }
        }
        match ctx.steps(h) {
            Ok(steps) => {
                for s in steps {
                    d.str(s);
                }
            }
            Err(_) => d.str("steps-error"),
        }
        match ctx.params(h, 0) {
            Ok(p) => {
                d.str(&p.name);
                d.str(&format!("{:?}", p.real));
                d.str(&format!("{:?}", p.boolean));
            }
            Err(_) => d.str("params-error"),
        }
        d.low()
    })
}

/// Does the operator add exactly `t` forward and subtract it inverse?
pub fn check_value(ctx: &dyn Context, h: OpHandle, t: [f64; 4]) -> Result<(), String> {
    for inv in [false, true] {
        let mut data: Vec<Coor4D> = PROBES.iter().map(|p| Coor4D(*p)).collect();
        let r = catch(|| ctx.apply(h, if inv { Inv } else { Fwd }, &mut data));
        match r {
            Err(p) => return Err(format!("apply panics: {p}")),
            Ok(Err(e)) => return Err(format!("apply fails: {e}")),
            Ok(Ok(_)) => {}
        }
        for (i, p) in PROBES.iter().enumerate() {
            for k in 0..4 {
                let want = if inv { p[k] - t[k] } else { p[k] + t[k] };
                // the algebra is exact except for grid interpolation away from a node
                if !((data[i][k] - want).abs() <= 1e-9) {
                    return Err(format!("{} probe {:?}: got {:?}, the documented resolution gives {:?} (translation {:?})", if inv { "inverse" } else { "forward" }, p, data[i].0, [if inv { p[0] - t[0] } else { p[0] + t[0] }, if inv { p[1] - t[1] } else { p[1] + t[1] }, if inv { p[2] - t[2] } else { p[2] + t[2] }, if inv { p[3] - t[3] } else { p[3] + t[3] }], t));
                }
            }
        }
    }
    Ok(())
}

pub struct RegSim {
    _scratch: Scratch,
    pub root: PathBuf,
}

pub fn setup_scratch(tag: &str) -> (Scratch, PathBuf) {
    let scratch = Scratch::new(tag);
    let root = scratch.root.clone();
    std::fs::create_dir_all(root.join("cwd")).unwrap();
    std::fs::create_dir_all(root.join("xdg")).unwrap();
    std::env::set_var("XDG_DATA_HOME", root.join("xdg"));
    std::env::set_var("HOME", &root);
    std::env::remove_var("SHUTTLE_RANDOM_SEED");
    std::env::set_current_dir(root.join("cwd")).expect("chdir scratch");
    (scratch, root)
}

pub fn root_dir(root: &std::path::Path, which: u8) -> PathBuf {
    if which % 2 == 0 {
        root.join("cwd").join("geodesy")
    } else {
        root.join("xdg").join("geodesy")
    }
}

pub fn wipe_roots(root: &std::path::Path) {
    wipe_roots_opt(root, true)
}

pub fn wipe_roots_opt(root: &std::path::Path, create: bool) {
    for w in 0..2 {
        let d = root_dir(root, w);
        util::remove_any(&d);
        if create {
            std::fs::create_dir_all(d.join("resources")).unwrap();
            std::fs::create_dir_all(d.join("geoid")).unwrap();
            std::fs::create_dir_all(d.join("gsb")).unwrap();
        }
    }
}

fn write_file(path: &std::path::Path, bytes: &[u8]) {
    if let Some(parent) = path.parent() {
        let _ = std::fs::create_dir_all(parent);
    }
    util::remove_any(path);
    let _ = std::fs::write(path, bytes);
}

// ----- generation -------------------------------------------------------------------

// (the two name pools overlap on purpose: the same name may be registered both as a
// macro and as an operator; the two registrations are independent of each other)
const MACRO_NAMES: &[&str] = &["M:Up", "bulk:7", "bulk:250", "m:a", "m:b", "m:c", "geo:in", "neu:out", "f:x", "f:y", "f:way", "f:way_too", "g:x", "g:last", "plainres", "rec:a", "addone", "shadow", "u:op"];
const FILE_MACROS: &[(&str, &str)] = &[("f", "x"), ("f", "y"), ("f", "way"), ("f", "way_too"), ("g", "x"), ("g", "last")];
const OP_NAMES: &[&str] = &["Shadow", "AddK", "addk", "shadow", "addone", "helmert", "noop", "u:op", "m:a", "geo:in", "plainres", "stack", "push", "pop", "pipeline"];

fn gen_step(rng: &mut Rng) -> String {
    let base = match rng.weighted(&[14, 12, 10, 8, 22, 10, 4, 3, 3]) {
        0 => "addone".to_string(),
        1 => format!("helmert x={} y={} z={}", rng.range(-9, 9), rng.range(-9, 9), rng.range(-9, 9)),
        2 => {
            if rng.chance(0.5) {
                "addk".to_string()
            } else {
                format!("addk k={}", rng.range(1, 9))
            }
        }
        3 => {
            if rng.chance(0.2) {
                (*rng.pick(&["bulkop3", "bulkop299", "bulkop1000"])).to_string()
            } else {
                "shadow".to_string()
            }
        }
        4 => (*rng.pick(MACRO_NAMES)).to_string(),
        5 => match rng.below(6) {
            4 => format!("gridshift grids={}", NT_GRID),
            5 => format!("gridshift grids=@{}, {}", NT_GRID, rng.pick(GRID_NAMES)),
            0 => format!("gridshift grids={}", rng.pick(GRID_NAMES)),
            1 => format!("gridshift grids=@{}", rng.pick(GRID_NAMES)),
            2 => format!("gridshift grids={}, {}", GRID_NAMES[0], GRID_NAMES[1]),
            _ => format!("gridshift grids=@missing.geoid, {}", rng.pick(GRID_NAMES)),
        },
        6 => match rng.below(4) {
            0 => format!("helmert x={} dx={} t_epoch=2000", rng.range(-9, 9), rng.range(1, 5)),
            1 => format!("helmert x={} dx={} dy={} t_epoch=2000", rng.range(-9, 9), rng.range(1, 5), rng.range(1, 5)),
            2 => "helmert x=1 dx=1".to_string(),
            _ => "noop".to_string(),
        },
        7 => "nosuchop".to_string(),
        _ => "no:such".to_string(),
    };
    // a parameter value may contain a colon (a sexagesimal angle, a label): that makes
    // neither the step a macro invocation nor its name a resource name. Operators ignore
    // parameters they do not know.
    // (drawn from a copy of the generator: adding this choice left every plan of the
    // earlier engine versions as it was)
    let mut side = rng.clone();
    let base = if side.chance(0.06) { format!("{} {}", base, side.pick(&["lat_0=55:30", "note=a:b", "lon_0=12:00:00"])) } else { base };
    if rng.chance(0.2) {
        format!("{} inv", base)
    } else {
        base
    }
}

fn gen_def(rng: &mut Rng) -> String {
    // the pipeline handlers as stand-alone definitions (a user operator registered under
    // one of these names shadows them like any other built-in)
    if rng.chance(0.05) {
        return (*rng.pick(&["stack push=1", "push v_1", "pop v_1", "stack pop=1", "pipeline", "stack", "push", "pop"])).to_string();
    }
    // pipelines using the stack, with and without underflow: outside the algebra, but an
    // operator like any other as far as immutability goes
    if rng.chance(0.04) {
        return (*rng.pick(&["stack push=1 | stack pop=1,2", "addone | stack pop=1", "stack push=1,2 | addone | stack pop=2,1", "stack push=3 | helmert z=5 | stack pop=3", "stack push=1 | stack flip=1,2"])).to_string();
    }
    // names are case sensitive, also when the definition is written in PROJ syntax
    // (which only the Plain context translates)
    if rng.chance(0.05) {
        return (*rng.pick(&["Shadow", "AddK k=2", "M:Up", "shadow", "+proj=Shadow", "proj=AddK", "+proj=addk", "proj=addone", "+proj=Addone", "proj=Noop", "+proj=noop"])).to_string();
    }
    let n = match rng.weighted(&[55, 30, 15]) {
        0 => 1,
        1 => 2,
        _ => 3,
    };
    let steps: Vec<String> = (0..n).map(|_| gen_step(rng)).collect();
    steps.join(" | ")
}

fn gen_macro_body(rng: &mut Rng, name: &str) -> String {
    // an empty or blank text is a registration like any other (it takes precedence over
    // files, and then fails to instantiate)
    if rng.chance(0.04) {
        return (*rng.pick(&["", " ", "\n", "  \t "])).to_string();
    }
    if name == "rec:a" && rng.chance(0.6) {
        return "addone | rec:a".to_string();
    }
    // bodies refer to other macros now and then (nesting), never pass arguments
    let n = 1 + rng.below(3);
    let steps: Vec<String> = (0..n)
        .map(|_| match rng.weighted(&[30, 25, 15, 20, 10]) {
            0 => "addone".to_string(),
            1 => format!("helmert x={} z={}", rng.range(-9, 9), rng.range(-9, 9)),
            2 => "addk".to_string(),
            3 => (*rng.pick(&["m:a", "m:b", "f:x", "g:x", "f:way"])).to_string(),
            _ => "addone inv".to_string(),
        })
        .collect();
    steps.join(" | ")
}

/// A register file with several fenced items in a seeded layout
fn gen_register(rng: &mut Rng, prefix: &str) -> String {
    let suffixes: Vec<&str> = FILE_MACROS.iter().filter(|(p, _)| *p == prefix).map(|(_, s)| *s).collect();
    let eol = *rng.pick(&["\n", "\n", "\r\n", "\r"]);
    let mut out = String::new();
    // a large register now and then, laid out so that the tag line of one item straddles
    // a typical I/O block boundary (4 KiB ... 128 KiB)
    let straddle: Option<usize> = if rng.chance(0.05) { Some(*rng.pick(&[4096usize, 8192, 16384, 32768, 65536, 131072])) } else { None };
    let start_with_fence = straddle.is_none() && rng.chance(0.25);
    if !start_with_fence {
        out.push_str(&format!("# Register {}{}{}", prefix, eol, eol));
    }
    let mut chosen: Vec<&str> = suffixes.iter().copied().filter(|_| rng.chance(0.75)).collect();
    if chosen.is_empty() {
        chosen.push(suffixes[0]);
    }
    rng.shuffle(&mut chosen);
    let last = chosen.len() - 1;
    for (i, s) in chosen.iter().enumerate() {
        if i > 0 || !start_with_fence {
            if rng.chance(0.5) {
                out.push_str(&format!("## Item {}{}{}", s, eol, eol));
            }
        }
        if let (Some(boundary), true) = (straddle, i == last) {
            // prose up to a few bytes before the boundary, so that the tag crosses it
            let tag_len = "```geodesy:".len() + s.len();
            let target = boundary - 1 - rng.below(tag_len - 1);
            let mut filler = String::new();
            while out.len() + filler.len() + 64 < target {
                filler.push_str("Lorem ipsum dolor sit amet, consectetur adipiscing elit sed do.");
                filler.push_str(eol);
            }
            while out.len() + filler.len() + eol.len() < target {
                filler.push('.');
            }
            filler.push_str(eol);
            out.push_str(&filler);
        }
        out.push_str(&format!("```geodesy:{}{}", s, eol));
        if rng.chance(0.2) {
            out.push_str(eol);
        }
        let body = gen_macro_body(rng, &format!("{}:{}", prefix, s));
        out.push_str(&body);
        out.push_str(eol);
        let terminate = !(i == last && rng.chance(0.35));
        if terminate {
            out.push_str("```");
            out.push_str(eol);
            if rng.chance(0.5) {
                out.push_str(eol);
            }
            if rng.chance(0.2) {
                // an unrelated fenced block between items
                out.push_str(&format!("```console{}$ echo 55 12 | kp {}:{}{}```{}", eol, prefix, s, eol, eol));
            }
        }
    }
    out
}

impl Engine for RegSim {
    type Plan = PlanR;
    const NAME: &'static str = "regsim";
    const PROPERTY: &'static str = "C18";

    fn new(_tier: Tier) -> Self {
        let (scratch, root) = setup_scratch("regsim");
        RegSim { _scratch: scratch, root }
    }

    fn info() -> EngineInfo {
        EngineInfo {
            rule: "regsim: one run = up to four contexts (seeded mix of Minimal::new/default and Plain::new/default) sharing one scratch disk with the two search roots (./geodesy and $XDG_DATA_HOME/geodesy) and the process wide grid cache, driven through a seeded history of register_resource (new names, re-registration, built-in adaptor names, a name without colon), register_op (new names, names of built-ins, a colon name, a constructor that refuses), op (definitions over built-ins, user operators, run-time and file macros incl. nested and self-referential ones, grid operators incl. optional grids, unknown names, with/without inv), apply/steps/params (own, foreign and forged handles), Plain::clear_grids, and disk events (write/replace/delete/break resource files and registers in either root; register layouts: several fenced items in any order, item first in file, item last without terminator, unrelated fenced blocks, LF/CRLF/CR; write/replace/delete constant-valued grid files). Reference model: regmodel.rs (documented resolution order over an exactly representable translation algebra). After every event: the outcome equals the model's, and every operator ever created in any context still has its creation-time fingerprint (outputs on probes both directions, step list, first step's parameters). Non-trivial = at least one op() after at least one registration or disk event; distinct = hash of the event-kind sequence with name classes.",
            real_components: &["geodesy Minimal and Plain contexts, Op::op resolution, macro expansion, grid cache, gridshift/helmert/addone operators", "std::fs on a tmpfs scratch tree with two search roots"],
            simulated_components: &["the history of API calls across contexts", "resource/register/grid file contents and their faults (absent, directory in place, invalid UTF-8, dangling symlink, replaced while cached)", "the identifier source behind Uuid::new_v4 (vendored uuid 1.26.1 patched into the simulator build: seeded, pairwise distinct version 4 UUIDs, in about half of the runs differing from a common base in one 16 bit field only)"],
            assumptions: &[
                "macro invocations carry no arguments (argument passing is C04's subject), so that a macro's value is its body's value",
                "the sequential cache model is exact: a grid lookup is served from the cache if the name is cached, else from the first root holding the file",
            ],
            required_probes: &["shadow_builtin_after_creation", "reregistration_after_creation", "foreign_handle", "forged_handle", "file_macro_from_resource_file", "file_macro_from_register", "register_item_at_eof_without_terminator", "register_item_first_in_file", "register_cr_only", "runtime_beats_file", "second_root_used", "broken_file_falls_through", "grid_replaced_while_cached", "clear_then_new_version", "refusing_constructor", "recursive_macro", "op_after_clear_old_handle_alive", "op_from_another_os_thread", "storm_of_failing_instantiations", "burst_of_instantiations", "burst_of_registrations", "large_register_with_tag_across_a_block_boundary", "context_created_before_its_search_roots", "ntv2_operator_created"],
            // (new_operator_got_another_admissible_grid_version stays at zero on the unchanged tree)
            exhaustive: false,
        }
    }

    fn runs(&self, tier: Tier) -> u64 {
        match tier {
            Tier::Quick => 350_000,
            Tier::Thorough => 8_000_000,
        }
    }

    fn generate(&self, _index: u64, seed: u64, _tier: Tier) -> PlanR {
        let mut rng = Rng::new(seed);
        // (from a copy of the generator: the plans of earlier engine versions stay as they were)
        let ids = rng.clone().fork().next_u64() | 2;
        let n_ctx = 1 + rng.below(4);
        let ctxs: Vec<u8> = (0..n_ctx).map(|_| if rng.chance(0.65) { 2 + rng.below(2) as u8 } else { rng.below(2) as u8 }).collect();
        let n_events = 4 + rng.below(*rng.clone().pick(&[8, 20, 45]));
        // swarm: which event families are enabled
        let w_disk = if rng.chance(0.7) { 14 } else { 0 };
        let w_grid = if rng.chance(0.6) { 10 } else { 0 };
        let w_regop = if rng.chance(0.7) { 8 } else { 0 };
        let w_clear = if rng.chance(0.6) { 6 } else { 0 };
        let mut events = Vec::new();
        let mut n_ops = 0u16;
        let mut version = 1u32;
        for _ in 0..n_events {
            let ctx = rng.below(n_ctx) as u8;
            match rng.weighted(&[12, w_regop, 30, 16, 3, 3, 2, w_clear, w_disk, w_disk / 3, w_disk / 3, w_grid, w_grid / 3]) {
                0 => {
                    let name = *rng.pick(MACRO_NAMES);
                    events.push(Ev::RegisterResource { ctx, name: name.to_string(), text: gen_macro_body(&mut rng, name) });
                }
                1 => events.push(Ev::RegisterOp { ctx, name: rng.pick(OP_NAMES).to_string(), ctor: rng.weighted(&[45, 40, 15]) as u8 }),
                2 => {
                    if rng.chance(0.06) {
                        events.push(Ev::OpOnThread { ctx, def: gen_def(&mut rng) });
                    } else {
                        events.push(Ev::Op { ctx, def: gen_def(&mut rng) });
                    }
                    n_ops += 1;
                }
                3 if n_ops > 0 => events.push(Ev::Apply { ctx: rng.below(n_ctx) as u8, op: rng.below(n_ops as usize) as u16, inv: rng.chance(0.4) }),
                4 if n_ops > 0 => events.push(Ev::Steps { ctx: rng.below(n_ctx) as u8, op: rng.below(n_ops as usize) as u16 }),
                5 if n_ops > 0 => events.push(Ev::Params { ctx: rng.below(n_ctx) as u8, op: rng.below(n_ops as usize) as u16, index: rng.below(4) as u8 }),
                6 => {
                    if rng.chance(0.08) {
                        events.push(Ev::FailStorm { ctx, count: *rng.pick(&[3u16, 40, 130, 260]) });
                    } else if rng.chance(0.05) {
                        events.push(Ev::RegisterBurst { ctx, count: *rng.pick(&[10u16, 70, 300, 1100]) });
                    } else if rng.chance(0.05) {
                        // (a burst long enough to wrap a 16 bit counter is expensive: about one second)
                        let count = if rng.chance(0.015) { 70_000 } else { *rng.pick(&[20u32, 300, 700]) };
                        events.push(Ev::OpBurst { ctx, count });
                    } else {
                        events.push(Ev::Forged { ctx });
                    }
                }
                7 => events.push(Ev::Clear),
                8 => {
                    let root = rng.below(2) as u8;
                    if rng.chance(0.5) {
                        let (p, s) = *rng.pick(FILE_MACROS);
                        let name = format!("{}:{}", p, s);
                        let mut text = gen_macro_body(&mut rng, &name);
                        // (a leading comment only in front of a pipeline: single step
                        // definitions starting with a comment are a tokenizer matter, C16)
                        if rng.chance(0.3) && text.contains('|') {
                            text = format!("# a resource file\n\n{}\n", text);
                        }
                        events.push(Ev::WriteResource { root, file: format!("{}_{}.resource", p, s), text });
                    } else {
                        let prefix = *rng.pick(&["f", "g"]);
                        events.push(Ev::WriteResource { root, file: format!("{}.md", prefix), text: gen_register(&mut rng, prefix) });
                    }
                }
                9 => {
                    let (p, s) = *rng.pick(FILE_MACROS);
                    let file = if rng.chance(0.5) { format!("{}_{}.resource", p, s) } else { format!("{}.md", p) };
                    events.push(Ev::BreakResource { root: rng.below(2) as u8, file, how: rng.below(3) as u8 });
                }
                10 => {
                    let (p, s) = *rng.pick(FILE_MACROS);
                    let file = if rng.chance(0.5) { format!("{}_{}.resource", p, s) } else { format!("{}.md", p) };
                    events.push(Ev::DeleteResource { root: rng.below(2) as u8, file });
                }
                11 => {
                    let name = if rng.chance(0.3) { NT_GRID } else { *rng.pick(GRID_NAMES) };
                    events.push(Ev::WriteGrid { root: rng.below(2) as u8, name: name.to_string(), version });
                    version += 1;
                }
                12 => {
                    let name = if rng.chance(0.3) { NT_GRID } else { *rng.pick(GRID_NAMES) };
                    events.push(Ev::DeleteGrid { root: rng.below(2) as u8, name: name.to_string() })
                }
                _ => {
                    events.push(Ev::Op { ctx, def: gen_def(&mut rng) });
                    n_ops += 1;
                }
            }
        }
        // Resource files and registers are part of the *configuration* a history runs in
        // (the property quantifies over file layouts, not over edits of those files while
        // contexts are alive: a context may remember what it has read): all of them are
        // in place before the first instantiation
        let (mut setup, rest): (Vec<Ev>, Vec<Ev>) = events.into_iter().partition(|e| matches!(e, Ev::WriteResource { .. } | Ev::BreakResource { .. } | Ev::DeleteResource { .. }));
        setup.extend(rest);
        PlanR { roots_exist: rng.chance(0.6), ctxs, events: setup, ids }
    }

    fn plan_size(&self, plan: &PlanR) -> usize {
        plan.events.len()
    }

    fn shrink_candidates(&self, plan: &PlanR) -> Vec<PlanR> {
        let mut out = Vec::new();
        let n = plan.events.len();
        // Dropping an Op event shifts the ordinals of later operators: renumber
        let drop_range = |s: usize, e: usize| -> PlanR {
            let mut p = PlanR { roots_exist: plan.roots_exist, ctxs: plan.ctxs.clone(), events: Vec::new(), ids: plan.ids };
            // ordinal map
            let mut map: Vec<Option<u16>> = Vec::new();
            let mut next = 0u16;
            for (i, ev) in plan.events.iter().enumerate() {
                if let Ev::Op { .. } | Ev::OpOnThread { .. } = ev {
                    if i >= s && i < e {
                        map.push(None);
                    } else {
                        map.push(Some(next));
                        next += 1;
                    }
                }
            }
            for (i, ev) in plan.events.iter().enumerate() {
                if i >= s && i < e {
                    continue;
                }
                let renum = |op: u16| map.get(op as usize).copied().flatten();
                match ev {
                    Ev::Apply { ctx, op, inv } => {
                        if let Some(o) = renum(*op) {
                            p.events.push(Ev::Apply { ctx: *ctx, op: o, inv: *inv });
                        }
                    }
                    Ev::Steps { ctx, op } => {
                        if let Some(o) = renum(*op) {
                            p.events.push(Ev::Steps { ctx: *ctx, op: o });
                        }
                    }
                    Ev::Params { ctx, op, index } => {
                        if let Some(o) = renum(*op) {
                            p.events.push(Ev::Params { ctx: *ctx, op: o, index: *index });
                        }
                    }
                    other => p.events.push(other.clone()),
                }
            }
            p
        };
        let mut w = n / 2;
        while w >= 1 {
            let mut s = 0;
            while s < n {
                let p = drop_range(s, (s + w).min(n));
                if !p.events.is_empty() {
                    out.push(p);
                }
                s += w;
            }
            w /= 2;
        }
        // fewer contexts: fold everything onto context 0
        if plan.ctxs.len() > 1 {
            let mut p = plan.clone();
            p.ctxs.truncate(1);
            out.push(p);
        }
        // the same call from the main thread
        for (i, ev) in plan.events.iter().enumerate() {
            if let Ev::OpOnThread { ctx, def } = ev {
                let mut p = plan.clone();
                p.events[i] = Ev::Op { ctx: *ctx, def: def.clone() };
                out.push(p);
            }
        }
        // simpler definitions: single steps
        for (i, ev) in plan.events.iter().enumerate() {
            if let Ev::Op { ctx, def } = ev {
                let steps: Vec<&str> = def.split('|').map(|s| s.trim()).collect();
                if steps.len() > 1 {
                    for s in &steps {
                        let mut p = plan.clone();
                        p.events[i] = Ev::Op { ctx: *ctx, def: s.to_string() };
                        out.push(p);
                    }
                }
            }
        }
        out
    }

    fn execute(&mut self, plan: &PlanR, rec: &mut Recorder) {
        wipe_roots_opt(&self.root, plan.roots_exist);
        if !plan.roots_exist {
            rec.probe("context_created_before_its_search_roots");
        }
        Plain::verif_reset_grids();
        // the identifiers of this run's handles: a function of the plan (vendored uuid, DESIGN §2 "H3")
        uuid::verif_source::seed(if plan.ids == 0 { None } else { Some((plan.ids, plan.ids & 1 == 1)) });
        if plan.ids & 1 == 1 {
            rec.probe("handles_differ_in_one_16_bit_field_only");
        }
        let n_ctx = plan.ctxs.len().max(1);
        let mut ctxs: Vec<AnyCtx> = plan.ctxs.iter().map(|k| AnyCtx::make(*k)).collect();
        let mut world = World {
            ctxs: plan.ctxs.iter().map(|k| model_ctx(*k)).collect(),
            ..Default::default()
        };
        if ctxs.is_empty() {
            ctxs.push(AnyCtx::make(2));
            world.ctxs.push(model_ctx(2));
        }
        let mut ops: Vec<LiveOp> = Vec::new();
        let mut handles: BTreeSet<OpHandle> = BTreeSet::new();
        let mut sig = Hash128::new();
        let mut changed_world = false;
        let mut nontrivial = false;
        let mut cleared_since_op = false;
        // failures seen after many failed instantiations in the same run get their own class
        let mut stormed = false;

        for (k, ev) in plan.events.iter().enumerate() {
            if rec.failed() {
                break;
            }
            rec.event();
            match ev {
                Ev::RegisterResource { ctx, name, text } => {
                    let c = *ctx as usize % n_ctx;
                    sig.str("R");
                    sig.str(name);
                    ctxs[c].get_mut().register_resource(name, text);
                    if world.ctxs[c].resources.contains_key(name) && !ops.is_empty() {
                        rec.probe("reregistration_after_creation");
                    }
                    world.ctxs[c].resources.insert(name.clone(), text.clone());
                    changed_world = true;
                    rec.logf(|| format!("e{} ctx{} register_resource {} = '{}'", k, c, name, text));
                }
                Ev::RegisterOp { ctx, name, ctor } => {
                    let c = *ctx as usize % n_ctx;
                    sig.str("P");
                    sig.str(name);
                    let (lib, model) = constructor(*ctor);
                    ctxs[c].get_mut().register_op(name, lib);
                    world.ctxs[c].user_ops.insert(name.clone(), model);
                    if ["addone", "helmert", "noop"].contains(&name.as_str()) && !ops.is_empty() {
                        rec.probe("shadow_builtin_after_creation");
                    }
                    changed_world = true;
                    rec.logf(|| format!("e{} ctx{} register_op {} ctor{}", k, c, name, ctor % 3));
                }
                Ev::Op { ctx, def } | Ev::OpOnThread { ctx, def } => {
                    let c = *ctx as usize % n_ctx;
                    let on_thread = matches!(ev, Ev::OpOnThread { .. });
                    sig.str(if on_thread { "T" } else { "O" });
                    if on_thread {
                        rec.probe("op_from_another_os_thread");
                    }
                    if changed_world {
                        nontrivial = true;
                    }
                    // probes about which path the resolution will take
                    self.resolution_probes(rec, &world, c, def);
                    let world_before = world.clone();
                    let model_steps = world.step_count(c, def, 0);
                    let mut model = eval_with_opaque(&mut world, c, def);
                    let made = if on_thread {
                        // contexts are Send: hand the context to another OS thread for this call
                        let ctx_ref = &mut ctxs[c];
                        catch(move || {
                            std::thread::scope(|s| {
                                s.spawn(move || match ctx_ref {
                                    AnyCtx::M(m) => m.op(def),
                                    AnyCtx::P(p) => p.op(def),
                                })
                                .join()
                                .unwrap_or_else(|_| panic!("op() panicked on the other thread"))
                            })
                        })
                    } else {
                        catch(|| ctxs[c].get_mut().op(def))
                    };
                    let made = match made {
                        Err(p) => {
                            rec.violate("I-safe", &format!("op() panics: {}", p), format!("event {} ctx{} op('{}'): {}", k, c, def, p));
                            break;
                        }
                        Ok(m) => m,
                    };
                    // Which version of a grid a *new* operator gets is left open by the property
                    // (a cache may keep, share or drop grids as it likes): if the outcome does
                    // not fit the plain "cache, else disk" reading, try the other admissible ones
                    let fits = |m: &Option<Val>, ctx: &dyn Context| -> bool {
                        match (&made, m) {
                            (Ok(h), Some(Val::Exact(t))) => check_value(ctx, *h, *t).is_ok(),
                            (Ok(_), Some(Val::Opaque)) => true,
                            (Err(_), None) => true,
                            _ => false,
                        }
                    };
                    if !fits(&model, ctxs[c].get()) {
                        for (m, w) in alternatives(&world_before, c, def) {
                            if fits(&m, ctxs[c].get()) {
                                rec.probe("new_operator_got_another_admissible_grid_version");
                                model = m;
                                world = w;
                                break;
                            }
                        }
                    }
                    match (made, model) {
                        (Ok(h), Some(val)) => {
                            if !handles.insert(h) {
                                rec.violate("I-hnd", "op() returned a handle that is already in use", format!("event {} op('{}')", k, def));
                                break;
                            }
                            if let Val::Exact(t) = &val {
                                if let Err(why) = check_value(ctxs[c].get(), h, *t) {
                                    rec.violate(
                                        "I-res",
                                        "a definition does not resolve to what the documented resolution order gives",
                                        format!("event {} ctx{} (kind {}) op('{}'): {}; run-time resources {:?}, user ops {:?}", k, c, plan.ctxs.get(c).copied().unwrap_or(2), def, why, world.ctxs[c].resources.keys().collect::<Vec<_>>(), world.ctxs[c].user_ops),
                                    );
                                    break;
                                }
                            }
                            // (what the step list of a new operator looks like is not C18's subject --
                            // only that it never changes afterwards, which the fingerprint covers)
                            let _ = model_steps;
                            let fp = match fingerprint(ctxs[c].get(), h, k as u64) {
                                Ok(f) => f,
                                Err(p) => {
                                    rec.violate("I-safe", &format!("apply/steps/params panics: {}", p), format!("event {} op('{}')", k, def));
                                    break;
                                }
                            };
                            if cleared_since_op && !ops.is_empty() {
                                rec.probe("op_after_clear_old_handle_alive");
                            }
                            if def.contains(NT_GRID) && val == Val::Opaque {
                                rec.probe("ntv2_operator_created");
                            }
                            cleared_since_op = false;
                            ops.push(LiveOp { ctx: c, handle: h, expect: val, fingerprint: fp });
                            rec.logf(|| format!("e{} ctx{} op '{}' -> ok fp={:016x}", k, c, def, fp));
                        }
                        (Err(e), None) => {
                            // the model's cache must not have moved further than the library's:
                            // keep whatever was loaded before the failing step (same order)
                            let _ = &world_before;
                            rec.logf(|| format!("e{} ctx{} op '{}' -> err {}", k, c, def, util::normalize_message(&e.to_string())));
                        }
                        (Ok(_), None) => {
                            rec.violate(
                                "I-res",
                                "a definition instantiates although the documented resolution order gives an error",
                                format!("event {} ctx{} (kind {}) op('{}'); run-time resources {:?}, user ops {:?}", k, c, plan.ctxs.get(c).copied().unwrap_or(2), def, world.ctxs[c].resources.keys().collect::<Vec<_>>(), world.ctxs[c].user_ops),
                            );
                            break;
                        }
                        (Err(e), Some(_)) => {
                            rec.violate(
                                "I-res",
                                if stormed { "a definition fails although the documented resolution order resolves it (after a storm of failing instantiations in the same run)" } else { "a definition fails although the documented resolution order resolves it" },
                                format!("event {} ctx{} (kind {}) op('{}') -> {}; run-time resources {:?}, user ops {:?}, disk roots {:?}, cache {:?}", k, c, plan.ctxs.get(c).copied().unwrap_or(2), def, e, world.ctxs[c].resources, world.ctxs[c].user_ops, world.roots, world.cache),
                            );
                            break;
                        }
                    }
                }
                Ev::Apply { ctx, op, inv } => {
                    sig.str("A");
                    let c = *ctx as usize % n_ctx;
                    let Some(o) = ops.get(*op as usize) else { continue };
                    let mut data: Vec<Coor4D> = PROBES.iter().map(|p| Coor4D(*p)).collect();
                    let r = catch(|| ctxs[c].get().apply(o.handle, if *inv { Inv } else { Fwd }, &mut data));
                    let foreign = o.ctx != c;
                    if foreign {
                        rec.probe("foreign_handle");
                        let mut none: Vec<Coor4D> = Vec::new();
                        if let Ok(Ok(_)) = catch(|| ctxs[c].get().apply(o.handle, Fwd, &mut none)) {
                            rec.violate("I-hnd", "a handle from another context is accepted by apply", format!("event {}: operator of ctx{} through ctx{} with an empty coordinate set", k, o.ctx, c));
                            break;
                        }
                    }
                    match r {
                        Err(p) => {
                            rec.violate("I-safe", &format!("apply panics: {}", p), format!("event {}", k));
                            break;
                        }
                        Ok(Ok(_)) if foreign => {
                            rec.violate("I-hnd", "a handle from another context is accepted by apply", format!("event {}: operator of ctx{} through ctx{}", k, o.ctx, c));
                            break;
                        }
                        Ok(Err(e)) if !foreign => {
                            rec.violate("I-hnd", "a live handle is rejected by its own context", format!("event {}: {}", k, e));
                            break;
                        }
                        _ => {}
                    }
                    if !foreign {
                        if let Val::Exact(t) = &o.expect {
                            if let Err(why) = check_value(ctxs[c].get(), o.handle, *t) {
                                rec.violate("I-imm", "an operator no longer does what it did when it was created", format!("event {}: operator #{}: {}", k, op, why));
                                break;
                            }
                        }
                    }
                    if !foreign {
                        // leave the operator (and whatever it shares with others) in a state that
                        // differs from run to run: one more apply of a single probe
                        let p = PROBES[(k + *op as usize) % PROBES.len()];
                        let mut one = vec![Coor4D(p)];
                        let _ = catch(|| ctxs[c].get().apply(o.handle, if *inv { Inv } else { Fwd }, &mut one));
                    }
                    rec.logf(|| format!("e{} ctx{} apply #{} foreign={}", k, c, op, foreign));
                }
                Ev::Steps { ctx, op } => {
                    sig.str("S");
                    let c = *ctx as usize % n_ctx;
                    let Some(o) = ops.get(*op as usize) else { continue };
                    let r = catch(|| ctxs[c].get().steps(o.handle).map(|s| s.len()));
                    match (r, o.ctx == c) {
                        (Err(p), _) => {
                            rec.violate("I-safe", &format!("steps panics: {}", p), format!("event {}", k));
                            break;
                        }
                        (Ok(Ok(_)), false) => {
                            rec.violate("I-hnd", "a handle from another context is accepted by steps", format!("event {}", k));
                            break;
                        }
                        (Ok(Err(e)), true) => {
                            rec.violate("I-hnd", "a live handle is rejected by steps", format!("event {}: {}", k, e));
                            break;
                        }
                        _ => {}
                    }
                    rec.logf(|| format!("e{} ctx{} steps #{}", k, c, op));
                }
                Ev::Params { ctx, op, index } => {
                    sig.str("Q");
                    let c = *ctx as usize % n_ctx;
                    let Some(o) = ops.get(*op as usize) else { continue };
                    let r = catch(|| ctxs[c].get().params(o.handle, *index as usize).map(|p| p.name));
                    match (r, o.ctx == c) {
                        (Err(p), _) => {
                            rec.violate("I-safe", &format!("params panics: {}", p), format!("event {}", k));
                            break;
                        }
                        (Ok(Ok(_)), false) => {
                            rec.violate("I-hnd", "a handle from another context is accepted by params", format!("event {}", k));
                            break;
                        }
                        (Ok(Err(e)), true) if *index == 0 => {
                            rec.violate("I-hnd", "a live handle is rejected by params", format!("event {}: {}", k, e));
                            break;
                        }
                        _ => {}
                    }
                    rec.logf(|| format!("e{} ctx{} params #{} [{}]", k, c, op, index));
                }
                Ev::Forged { ctx } => {
                    sig.str("F");
                    let c = *ctx as usize % n_ctx;
                    rec.probe("forged_handle");
                    let forged = OpHandle::new();
                    let mut data = vec![Coor4D(PROBES[0])];
                    let r = catch(|| {
                        let mut none: Vec<Coor4D> = Vec::new();
                        let empty_ok = ctxs[c].get().apply(forged, Inv, &mut none).is_ok();
                        (ctxs[c].get().apply(forged, Fwd, &mut data).is_ok() || empty_ok, ctxs[c].get().steps(forged).is_ok(), ctxs[c].get().params(forged, 0).is_ok())
                    });
                    match r {
                        Err(p) => {
                            rec.violate("I-safe", &format!("unknown handle makes the context panic: {}", p), format!("event {}", k));
                            break;
                        }
                        Ok((a, s, p)) => {
                            if a || s || p {
                                rec.violate("I-hnd", "an unknown handle is accepted", format!("event {}: apply {} steps {} params {}", k, a, s, p));
                                break;
                            }
                            if handles.contains(&forged) {
                                rec.violate("I-hnd", "a fresh handle collides with an existing one", format!("event {}", k));
                                break;
                            }
                        }
                    }
                    rec.log("forged handle rejected");
                }
                Ev::FailStorm { ctx, count } => {
                    sig.str("Z");
                    let c = *ctx as usize % n_ctx;
                    if *count >= 100 {
                        rec.probe("storm_of_failing_instantiations");
                        stormed = true;
                    }
                    let r = catch(|| {
                        let mut unexpected = 0u32;
                        for i in 0..*count {
                            let def = if i % 2 == 0 { "nosuchop" } else { "no:such | addone" };
                            if ctxs[c].get_mut().op(def).is_ok() {
                                unexpected += 1;
                            }
                        }
                        unexpected
                    });
                    match r {
                        Err(p) => {
                            rec.violate("I-safe", &format!("op() panics: {}", p), format!("event {}", k));
                            break;
                        }
                        Ok(n) if n > 0 => {
                            rec.violate("I-res", "an unknown name instantiates", format!("event {}: {} of {} unknown definitions were accepted", k, n, count));
                            break;
                        }
                        Ok(_) => {}
                    }
                    changed_world = true;
                    rec.logf(|| format!("e{} ctx{} {} failing instantiations", k, c, count));
                }
                Ev::RegisterBurst { ctx, count } => {
                    sig.str("Y");
                    let c = *ctx as usize % n_ctx;
                    if *count >= 256 {
                        rec.probe("burst_of_registrations");
                    }
                    for i in 0..*count {
                        let name = format!("bulk:{}", i);
                        let text = if i % 2 == 0 { "addone" } else { "helmert x=2 | addone" };
                        ctxs[c].get_mut().register_resource(&name, text);
                        world.ctxs[c].resources.insert(name, text.to_string());
                        let (lib, model) = constructor(0);
                        let opname = format!("bulkop{}", i);
                        ctxs[c].get_mut().register_op(&opname, lib);
                        world.ctxs[c].user_ops.insert(opname, model);
                    }
                    changed_world = true;
                    rec.logf(|| format!("e{} ctx{} burst of {} registrations", k, c, count));
                }
                Ev::OpBurst { ctx, count } => {
                    sig.str("U");
                    let c = *ctx as usize % n_ctx;
                    if *count >= 256 {
                        rec.probe("burst_of_instantiations");
                    }
                    let r = catch(|| {
                        let mut made = Vec::new();
                        for i in 0..*count {
                            let def = if i % 3 == 0 { "helmert x=1 y=2 z=3" } else { "noop" };
                            if let Ok(h) = ctxs[c].get_mut().op(def) {
                                made.push(h);
                            }
                        }
                        made
                    });
                    match r {
                        Err(p) => {
                            rec.violate("I-safe", &format!("op() panics: {}", p), format!("event {}", k));
                            break;
                        }
                        Ok(made) => {
                            // (a user operator may shadow `noop`/`helmert` and refuse: then fewer are made)
                            let mut clash = false;
                            for h in &made {
                                if !handles.insert(*h) {
                                    clash = true;
                                }
                            }
                            if clash {
                                rec.violate("I-hnd", "op() returned a handle that is already in use", format!("event {}: within or after a burst of {} instantiations", k, count));
                                break;
                            }
                        }
                    }
                    changed_world = true;
                    rec.logf(|| format!("e{} ctx{} burst of {} instantiations", k, c, count));
                }
                Ev::Clear => {
                    sig.str("C");
                    if let Err(p) = catch(Plain::clear_grids) {
                        rec.violate("I-safe", &format!("clear_grids panics: {}", p), format!("event {}", k));
                        break;
                    }
                    world.cache.clear();
                    cleared_since_op = true;
                    changed_world = true;
                    rec.log("clear_grids");
                }
                Ev::WriteResource { root, file, text } => {
                    sig.str("W");
                    let w = (*root % 2) as usize;
                    let path = root_dir(&self.root, *root).join("resources").join(file);
                    write_file(&path, text.as_bytes());
                    if text.len() > 4000 {
                        rec.probe("large_register_with_tag_across_a_block_boundary");
                    }
                    world.roots[w].resources.insert(file.clone(), Some(text.clone()));
                    changed_world = true;
                    rec.logf(|| format!("e{} root{} write {} ({} bytes)", k, w, file, text.len()));
                }
                Ev::BreakResource { root, file, how } => {
                    sig.str("B");
                    let w = (*root % 2) as usize;
                    let path = root_dir(&self.root, *root).join("resources").join(file);
                    util::remove_any(&path);
                    if let Some(parent) = path.parent() {
                        let _ = std::fs::create_dir_all(parent);
                    }
                    // What a reader makes of bytes that are not UTF-8 is left open (skip the
                    // file, decode leniently, cut items out bytewise): the invalid file holds
                    // no item at all, and a stand-alone resource file is made a directory instead
                    match if file.ends_with(".md") { how % 3 } else if how % 3 == 1 { 0 } else { how % 3 } {
                        0 => {
                            let _ = std::fs::create_dir_all(&path);
                            rec.fault("directory_in_place_of_resource_file");
                        }
                        1 => {
                            let _ = std::fs::write(&path, b"\xff\xfe\x80 not a register \xc3\n");
                            rec.fault("invalid_utf8_in_resource_file");
                        }
                        _ => {
                            let _ = std::os::unix::fs::symlink(self.root.join("nowhere"), &path);
                            rec.fault("dangling_symlink_resource_file");
                        }
                    }
                    world.roots[w].resources.insert(file.clone(), None);
                    changed_world = true;
                    rec.logf(|| format!("e{} root{} break {} how{}", k, w, file, how % 3));
                }
                Ev::DeleteResource { root, file } => {
                    sig.str("D");
                    let w = (*root % 2) as usize;
                    util::remove_any(&root_dir(&self.root, *root).join("resources").join(file));
                    world.roots[w].resources.remove(file);
                    rec.fault("resource_file_deleted");
                    changed_world = true;
                    rec.logf(|| format!("e{} root{} delete {}", k, w, file));
                }
                Ev::WriteGrid { root, name, version } => {
                    sig.str("G");
                    let w = (*root % 2) as usize;
                    let path = root_dir(&self.root, *root).join(if name == NT_GRID { "gsb" } else { "geoid" }).join(name);
                    write_file(&path, &if name == NT_GRID { nt_grid_bytes(*version) } else { grid_bytes(*version) });
                    if world.cache.contains_key(name) {
                        rec.probe("grid_replaced_while_cached");
                        rec.fault("grid_file_replaced_while_cached");
                    }
                    world.roots[w].grids.insert(name.clone(), *version);
                    changed_world = true;
                    rec.logf(|| format!("e{} root{} grid {} v{}", k, w, name, version));
                }
                Ev::DeleteGrid { root, name } => {
                    sig.str("X");
                    let w = (*root % 2) as usize;
                    util::remove_any(&root_dir(&self.root, *root).join(if name == NT_GRID { "gsb" } else { "geoid" }).join(name));
                    world.roots[w].grids.remove(name);
                    rec.fault("grid_file_deleted");
                    changed_world = true;
                    rec.logf(|| format!("e{} root{} delete grid {}", k, w, name));
                }
            }
            // I-imm: every operator ever created still has its creation-time fingerprint
            for (n, o) in ops.iter().enumerate() {
                match fingerprint(ctxs[o.ctx].get(), o.handle, (k as u64) << 16 | n as u64) {
                    Ok(fp) if fp == o.fingerprint => {}
                    Ok(_) => {
                        rec.violate(
                            "I-imm",
                            "an operator changed (outputs, step list or parameters) after a later event",
                            format!("after event {} ({:?}): operator #{} of ctx{}", k, ev, n, o.ctx),
                        );
                        break;
                    }
                    Err(p) => {
                        rec.violate("I-safe", &format!("apply/steps/params panics: {}", p), format!("after event {}: operator #{}", k, n));
                        break;
                    }
                }
            }
        }
        if nontrivial {
            rec.sig(sig.low());
        }
        rec.logf(|| format!("end {}", sig.hex()));
    }
}

/// Other admissible readings of what a new operator's grid lookups deliver: an empty
/// cache (a cache may drop what it likes), and any combination of versions that some
/// operator of this run has loaded before (a cache may keep sharing what is alive)
/// or that is on disk now. Each comes with the world it leaves behind.
pub fn alternatives(before: &World, c: usize, def: &str) -> Vec<(Option<Val>, World)> {
    let mut out = Vec::new();
    let mut w = before.clone();
    w.cache.clear();
    let m = eval_with_opaque(&mut w, c, def);
    out.push((m, w));
    let names: Vec<&str> = GRID_NAMES.iter().copied().chain(std::iter::once(NT_GRID)).collect();
    let mut options: Vec<Vec<Option<u32>>> = Vec::new();
    for n in &names {
        let mut o: Vec<Option<u32>> = vec![None];
        if let Some(set) = before.ever_loaded.get(*n) {
            o.extend(set.iter().map(|v| Some(*v)));
        }
        if let Some(v) = before.disk_version(n) {
            if !o.contains(&Some(v)) {
                o.push(Some(v));
            }
        }
        options.push(o);
    }
    let total: usize = options.iter().map(|o| o.len()).product();
    if total > 400 {
        return out;
    }
    for combo in 0..total {
        let mut k = combo;
        let mut w = before.clone();
        w.cache.clear();
        let mut any = false;
        for (i, n) in names.iter().enumerate() {
            let pick = options[i][k % options[i].len()];
            k /= options[i].len();
            if let Some(v) = pick {
                w.choice.insert(n.to_string(), v);
                any = true;
            }
        }
        if !any {
            continue;
        }
        let m = eval_with_opaque(&mut w, c, def);
        w.choice.clear();
        out.push((m, w));
    }
    out
}

/// (built-in adaptors are marked with a sentinel text in the model and resolve opaquely)
pub fn eval_with_opaque(world: &mut World, c: usize, def: &str) -> Option<Val> {
    world.eval(c, def, 0)
}

impl RegSim {
    fn resolution_probes(&self, rec: &mut Recorder, world: &World, c: usize, def: &str) {
        for step in def.split('|') {
            let Some(name) = step.split_whitespace().next() else { continue };
            if !name.contains(':') {
                if world.ctxs[c].user_ops.get(name) == Some(&Ctor::Refuse) {
                    rec.probe("refusing_constructor");
                }
                continue;
            }
            if name == "rec:a" && world.macro_text(c, name).map(|t| t.contains("rec:a")).unwrap_or(false) {
                rec.probe("recursive_macro");
            }
            let parts: Vec<&str> = name.split(':').collect();
            if parts.len() != 2 || !world.ctxs[c].plain {
                continue;
            }
            let (prefix, suffix) = (parts[0], parts[1]);
            let res = format!("{}_{}.resource", prefix, suffix);
            let reg = format!("{}.md", prefix);
            let on_disk = world.roots.iter().any(|r| r.resources.contains_key(&res) || r.resources.get(&reg).and_then(|t| t.as_ref()).map(|t| crate::regmodel::register_item(t, suffix).is_some()).unwrap_or(false));
            if world.ctxs[c].resources.contains_key(name) {
                if on_disk {
                    rec.probe("runtime_beats_file");
                }
                continue;
            }
            for (w, root) in world.roots.iter().enumerate() {
                match root.resources.get(&res) {
                    Some(Some(_)) => {
                        rec.probe("file_macro_from_resource_file");
                        if w == 1 {
                            rec.probe("second_root_used");
                        }
                        break;
                    }
                    Some(None) => rec.probe("broken_file_falls_through"),
                    None => {}
                }
                match root.resources.get(&reg) {
                    Some(Some(text)) => {
                        if crate::regmodel::register_item(text, suffix).is_some() {
                            rec.probe("file_macro_from_register");
                            if w == 1 {
                                rec.probe("second_root_used");
                            }
                            let norm = text.replace('\r', "\n");
                            let tag = format!("```geodesy:{}\n", suffix);
                            if let Some(pos) = norm.find(&tag) {
                                if pos == 0 {
                                    rec.probe("register_item_first_in_file");
                                }
                                if !norm[pos + tag.len()..].contains("```") {
                                    rec.probe("register_item_at_eof_without_terminator");
                                }
                            }
                            if text.contains('\r') && !text.contains('\n') {
                                rec.probe("register_cr_only");
                            }
                            break;
                        }
                    }
                    Some(None) => rec.probe("broken_file_falls_through"),
                    None => {}
                }
            }
        }
        if def.contains("gridshift") && world.ctxs[c].plain {
            for g in GRID_NAMES {
                if def.contains(g) && !world.cache.contains_key(*g) && world.roots.iter().any(|r| r.grids.contains_key(*g)) {
                    rec.probe("clear_then_new_version");
                }
            }
        }
    }
}
